#!/usr/bin/env python3
"""Sensitivity by reversal: for every 'fix:' commit in /repo, un-apply it in the working tree
(git show <commit> | git apply -R), run the quick tier of the checks that should notice, record
the outcome in mutants/reversals.json, and restore the tree. A reversal that does not apply
cleanly (later fixes touched the same lines) is reported as such.

  bin/revert_test.py [commit-prefix ...]
"""
import json
import os
import subprocess
import sys
import time

VERIF = os.path.dirname(os.path.dirname(os.path.abspath(__file__)))

EXPECT = {  # subject substring -> checks that should detect the reversal
    "PollableQueue::pop drains": ["C13"],
    "takes the derived core's lock": ["C12"],
    "whenAll/whenAny ignore outcomes": ["C11"],
    "keeps the original exception": ["C11"],
    "leaves the drain loop": ["C07"],
    "keeps its buffer and offset": ["C06"],
    "Router::route looks up": ["C09"],
    "closed by the idle scan is reported": ["C08"],
    "disarmed response timer is closed": ["C08"],
    "file descriptors of queued file buffers": ["C08"],
    "writable and readable at once": ["C06"],
    "complete only when the CRLF after the last chunk": ["C01", "C14"],
    "CRLF that ends a chunk is split": ["C01"],
    "snext no longer reads": ["C03"],
    "moving a Timeout": ["C08"],
    "chunk-size line must start with a hex digit": ["C03", "C01"],
    "shorter than the HTTP version": ["C01"],
    "also resets the body step": ["C04"],
    "response parser's reset clears": ["C04"],
    "reserved for the bytes that have arrived": ["C03"],
    "no longer parsed by strtol/strtod": ["C03"],
    "no longer overflows for a chunk size": ["C03"],
    "does not fit an int": ["C03"],
    "without holding the time-outs lock": ["C15"],
    "without holding the queues lock": ["C15"],
    "reads its descriptor before publishing": ["C15"],
    "does not send a request on a connection that has been closed": ["C15"],
    "pending request is installed and taken under a lock": ["C15"],
    "Handler::Context is atomic": ["C09"],
    "keeps its sub-second part": ["C15"],
    "exactly the one request that waited": ["C15"],
    "only while it is the connection's pending one": ["C15"],
    "survives a move of its ResponseWriter": ["C08"],
    "nothing left to write is ignored": ["C08"],
    "lock the peer once": ["C08"],
    "given up when a request on it times out": ["C15"],
    "after the attempt has failed no longer marks": ["C15"],
    "nobody is waiting for does not stay": ["C15"],
    "trailer section after the last chunk": ["C01"],
    "descriptor now belongs to another connection": ["C09", "C13"],
    "joined before the first of them is destroyed": ["C13"],
}


def sh(cmd, **kw):
    return subprocess.run(cmd, stdout=subprocess.PIPE, stderr=subprocess.STDOUT, text=True, **kw)


def main():
    want = sys.argv[1:]
    log = sh(["git", "-C", "/repo", "log", "--format=%h %s"]).stdout.splitlines()
    fixes = [(l.split()[0], l.split(" ", 1)[1]) for l in log if l.split(" ", 1)[1].startswith("fix:")]
    if sh(["git", "-C", "/repo", "status", "--porcelain"]).stdout.strip():
        print("refusing: /repo has uncommitted changes")
        return 2
    out_path = os.path.join(VERIF, "mutants", "reversals.json")
    os.makedirs(os.path.dirname(out_path), exist_ok=True)
    results = json.load(open(out_path)) if os.path.exists(out_path) else {}
    saved = os.path.join(VERIF, "build", "evidence-saved")
    for commit, subject in reversed(fixes):
        if want and not any(commit.startswith(w) for w in want):
            continue
        checks = None
        for k, v in EXPECT.items():
            if k in subject:
                checks = v
        if not checks:
            print("no expectation for", commit, subject)
            continue
        diff = sh(["git", "-C", "/repo", "show", "--format=", commit]).stdout
        ap = subprocess.run(["git", "-C", "/repo", "apply", "-R", "-"], input=diff, stdout=subprocess.PIPE, stderr=subprocess.STDOUT, text=True)
        entry = {"commit": commit, "subject": subject, "checks": {}}
        if ap.returncode != 0:
            entry["applies"] = False
            entry["note"] = ap.stdout.strip()[:300]
            print("%s: reversal does not apply cleanly" % commit)
            results[commit] = entry
            sh(["git", "-C", "/repo", "checkout", "--", "."])
            continue
        entry["applies"] = True
        sh(["rm", "-rf", saved])
        sh(["cp", "-r", os.path.join(VERIF, "evidence"), saved])
        try:
            for c in checks:
                t0 = time.time()
                env = dict(os.environ)
                env["VERIF_REPLAY_DIR"] = os.path.join(VERIF, "build", "reversal-replays", commit)
                r = sh([os.path.join(VERIF, "bin", "check"), c], cwd=VERIF, env=env)
                sigs = [l.strip()[len("signature: "):] for l in r.stdout.splitlines() if l.strip().startswith("signature: ")]
                entry["checks"][c] = {"exit": r.returncode, "detected": r.returncode == 1, "signatures": sigs, "wall_s": round(time.time() - t0, 1)}
                print("%s reversed, %s: exit %d %s (%.0fs)" % (commit, c, r.returncode, sigs[:3], time.time() - t0))
                if r.returncode not in (0, 1):
                    print(r.stdout[-2000:])
        finally:
            sh(["git", "-C", "/repo", "checkout", "--", "."])
            sh(["rm", "-rf", os.path.join(VERIF, "evidence")])
            sh(["cp", "-r", saved, os.path.join(VERIF, "evidence")])
        results[commit] = entry
        json.dump(results, open(out_path, "w"), indent=1)
    return 0


if __name__ == "__main__":
    sys.exit(main())
