#!/usr/bin/env python3
"""usage: WT_PREFIX=/tmp/wt6- SEED_LOG_DIR=/tmp/r6 SEED_ROUND=6 bin/seed_install.py <PROP> <A|B> <seeded-id>
copies a confirmed sub-agent change (patch, demo, meta + our confirmation log) into /verif/seeded/<id>/"""
import json, os, shutil, sys
P, V, sid = sys.argv[1:4]
import os as _os
WT = _os.environ.get("WT_PREFIX", "/tmp/wt-")
LOGS = _os.environ.get("SEED_LOG_DIR", "/tmp/seedlogs")
ROUND = _os.environ.get("SEED_ROUND", "?")
src = "%s%s/seeded/%s" % (WT, P, V)
dst = "/verif/seeded/%s" % sid
os.makedirs(dst, exist_ok=True)
shutil.copy(src + "/patch.diff", dst + "/patch.diff")
if os.path.isdir(dst + "/demo"): shutil.rmtree(dst + "/demo")
shutil.copytree(src + "/demo", dst + "/demo", ignore=shutil.ignore_patterns("*.o", "demo", "demo_a", "demo_b", "*.bin", "build", "*.log"))
# drop built binaries (anything executable that is not a script) 
for root, _, files in os.walk(dst + "/demo"):
    for f in files:
        p = os.path.join(root, f)
        if os.path.getsize(p) > 300000: os.unlink(p)
m = json.load(open(src + "/meta.json"))
m["id"] = sid
m["property"] = P
m["origin"] = "round %s: independent sub-agent given only the property record, a list of mechanisms earlier attempts had used, and a scratch worktree of /repo (%s%s, change %s)" % (ROUND, WT, P, V)
log = "%s/verify-%s-%s.log" % (LOGS, P, V)
if os.path.exists(log):
    t = open(log).read()
    m["verified_by_us"] = {"worktree": "%s%s (removed afterwards)" % (WT, P),
        "what_we_ran": "git apply patch.diff; cmake --build _build; ctest --test-dir _build -j3 --timeout 900 (expected: only net_test fails, as on the baseline); demo/run.sh with the change (expected exit 1) and after git checkout (expected exit 0)",
        "log": t[-3000:]}
json.dump(m, open(dst + "/meta.json", "w"), indent=1)
print("installed", sid)
