#!/usr/bin/env python3
"""Regenerates MANIFEST.json from bin/props.py (claimed properties) and the fixed texts below."""
import json, os, subprocess, sys
VERIF = os.path.dirname(os.path.dirname(os.path.abspath(__file__)))
sys.path.insert(0, os.path.join(VERIF, "bin"))
from props import PROPS, MANIFEST_TEXT, NOT_APPLICABLE

hooks = subprocess.run(["git", "-C", "/repo", "log", "--format=%h %s"], stdout=subprocess.PIPE, text=True).stdout.splitlines()
hook_commits = [l.split()[0] for l in hooks if l.split(" ", 1)[1].startswith("verif:")]
m = {
    "version": 1,
    "setup_cmd": "bin/check build plain tsan asan tsanat",
    "hooks": {
        "guard": "PISTACHE_VERIF_SIM",
        "enable": "the checks compile /repo/src/**/*.cc and the headers with -DPISTACHE_VERIF_SIM (sim/Makefile) and link them against the simulator through -Wl,--wrap seams",
        "baseline_off_cmd": "cmake --build /repo/_build -j16 && ctest --test-dir /repo/_build -j8 --timeout 900",
        "source_commits": list(reversed(hook_commits)),
        "add_only": True,
    },
    "engines": [{
        "name": "pistache_sim", "path": "sim/", "serves_properties": sorted(PROPS),
        "kind_free_text": "deterministic simulation: seeded baton scheduler over real threads, simulated kernel (epoll/eventfd/timerfd/TCP), discrete-event clock, fault injection, plan shrinking and replay",
    }],
    "checks": [],
    "not_applicable": [],
    "notes": "Every check rebuilds the variants it needs from /repo's working tree (incremental make). VERIF_SEED selects the base seed; every run derives from it. known_findings.json lists repaired (fixed) and recorded (known) defects.",
}
for pid in sorted(PROPS):
    t = MANIFEST_TEXT[pid]
    m["checks"].append({
        "property_id": pid,
        "quick_cmd": "bin/check %s --tier quick" % pid,
        "thorough_cmd": "bin/check %s --tier thorough" % pid,
        "evidence_file": "evidence/%s.json" % pid,
        "replay_cmd_template": "bin/check replay {path}",
        "engine": "pistache_sim",
        "level_claimed": {"category": "exploration", "text": t["level"], "design_ref": t["design_ref"]},
        "level_note": t["note"],
        "technique": t.get("technique", "deterministic simulation with fault injection: seeded search over schedules and fault sequences"),
    })
for pid, reason in NOT_APPLICABLE.items():
    if pid not in PROPS:
        m["not_applicable"].append({"property_id": pid, "reason": reason})
with open(os.path.join(VERIF, "MANIFEST.json"), "w") as f:
    json.dump(m, f, indent=1)
print("MANIFEST.json written: %d checks, %d not applicable" % (len(m["checks"]), len(m["not_applicable"])))
