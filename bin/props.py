"""Per-property configuration of the checks: which scenarios run in which build variant, how
many simulated runs per tier, the evidence rule text, and the reach probes expected to fire."""

COMPONENTS = {
    "real_code": [
        "all of oktal/pistache src/ and include/ built from /repo's working tree with -DPISTACHE_VERIF_SIM",
        "libstdc++, glibc heap and string functions",
    ],
    "stubbed": [
        "thread scheduling (seeded baton scheduler over real pthreads)",
        "mutex / condition variable / thread start / join (simulated blocking on top of the real primitives)",
        "epoll, eventfd, timerfd, TCP stream and listening sockets, accept/connect (simulated kernel)",
        "steady/system clock and timers (discrete-event clock)",
        "remote peers (scripted actors with an independent HTTP reader/writer)",
    ],
}

NONTRIVIAL = ("a run is non-trivial if the scheduler had at least one decision point with more than one enabled thread "
              "or at least one injected fault fired; distinct = distinct (scenario, plan hash, event-log hash)")

PROPS = {
    "C13": {
        "rule": "plans (1..4 producers x 1..5 pushes, start delays, gaps, prefill, pollable or plain queue) and schedules "
                "(uniform random / PCT / sticky) drawn from VERIF_SEED; " + NONTRIVIAL,
        "probes_expected": ["consumer-woken", "prefilled-before-consumer", "plain-queue"],
        "assumptions": ["single consumer (as in Pistache's own use of the queue)"],
        "quick": {"batches": [("c13_queue", "plain", 40000)], "chunk": 1000},
        "thorough": {"batches": [("c13_queue", "plain", 600000)], "chunk": 5000},
    },
}
