"""Per-property configuration of the checks: which scenarios run in which build variant, how
many simulated runs per tier, the evidence rule text, and the reach probes expected to fire."""

COMPONENTS = {
    "real_code": [
        "all of oktal/pistache src/ and include/ built from /repo's working tree with -DPISTACHE_VERIF_SIM",
        "libstdc++, glibc heap and string functions",
    ],
    "stubbed": [
        "thread scheduling (seeded baton scheduler over real pthreads)",
        "mutex / condition variable / thread start / join (simulated blocking on top of the real primitives)",
        "epoll, eventfd, timerfd, TCP stream and listening sockets, accept/connect (simulated kernel)",
        "steady/system clock and timers (discrete-event clock)",
        "remote peers (scripted actors with an independent HTTP reader/writer)",
    ],
}

NONTRIVIAL = ("a run is non-trivial if the scheduler had at least one decision point with more than one enabled thread "
              "or at least one injected fault fired; distinct = distinct (scenario, plan hash, event-log hash)")

PROPS = {
    "C15": {
        "rule": "real client with 1..2 reactor threads and 1..4 connections per host; 1..3 issuing threads x 1..24 requests with unique tags and optional "
                "time-outs against a scripted server whose per-request behaviour is drawn (immediate, delayed, byte-dribbled, chunked, close after the "
                "response, never, answer only after the client's time-out; answers leave a connection in request order; a quarter of the runs with a server "
                "that closes most connections after the response); in part of the runs another application thread opens connections of its own to the same "
                "server whenever a descriptor was released (descriptor-number reuse); in 30 % of the runs the application talks to two hosts through the one client (limit, pool and overflow queue are per host; in 40 % of these the second host is down and refuses every connection); 8 % of the plain responses span several 4 KiB receive buffers; thread stalls and slow thread starts injected; plain and "
                "ThreadSanitizer builds, and a ThreadSanitizer build in which every atomic operation is a decision point; "
                "e2e_client_server: the same client against a real Http::Endpoint (1..3 workers; echo, sized, application-thread, chunked and file responses) in one simulated "
                "process, 1..3 issuers x 1..16 requests (GET/POST/PUT/DELETE, query, bodies), drawn socket buffers / segment sizes / latency in the direction server -> client, "
                "short writes (both directions), short reads and EINTR injected, endpoint shut down in mid-load in a fifth of the runs; in 30 % of the runs two endpoints behind the one client, and when only one of them is shut down every request to the other must still be fulfilled; in 12 % of the runs without shutdown the endpoint's read time-outs are 1..2.5 s and some requests follow an idle gap longer than that (the server has answered the silence on the pooled connections with 408 and closed them); " + NONTRIVIAL,
        "probes_expected": ["kind-echo", "kind-size", "kind-async", "kind-file", "kind-stream", "server-would-block", "short-write", "shutdown-with-load", "behaviour-immediate", "behaviour-delayed", "behaviour-dribble", "behaviour-chunked", "behaviour-close-after", "behaviour-never",
                            "behaviour-late", "connection-limit-reached", "reconnected", "request-never-sent", "other-connection-opened", "two-hosts", "second-host-down", "idle-gap-beyond-the-servers-time-out", "connection-limit-reached-on-second-host", "response-larger-than-a-receive-buffer", "one-host-shut-down-the-other-goes-on"],
        "assumptions": ["requests small enough for the socket buffer (the client's partial-send path is an unimplemented stub)",
                        "a request without time-out behind a request that is never answered is not judged"],
        "quick": {"batches": [("c15_client", "plain", 12000), ("c15_client", "tsan", 1500), ("c15_client", "tsanat", 8000), ("c15_hostile_server", "tsanat", 3000),
                              ("e2e_client_server", "plain", 12000), ("e2e_client_server", "tsan", 1200), ("e2e_client_server", "tsanat", 2500), ("c04_client", "plain", 6000)], "chunk": 100},
        "thorough": {"batches": [("c15_client", "plain", 80000), ("c15_client", "tsan", 10000), ("c15_client", "asan", 10000), ("c15_client", "tsanat", 100000), ("c15_hostile_server", "tsanat", 30000),
                                 ("e2e_client_server", "plain", 150000), ("e2e_client_server", "tsan", 15000), ("e2e_client_server", "asan", 15000), ("e2e_client_server", "tsanat", 30000), ("c04_client", "plain", 60000), ("c04_client", "tsanat", 10000)], "chunk": 200},
    },
    "C03": {
        "rule": "server side: 1..4 hostile connections x 1..3 hostile messages each (50 % generated requests with 1..4 mutations, 40 % valid skeletons with hostile "
                "header/cookie/media-type/number values and hostile chunk framing, 10 % raw garbage; 12 % replaced by a well-formed request whose header section trickles in over hundreds of reads) in drawn segmentations beside a well-behaved "
                "keep-alive client on the same worker(s); client side: the real HTTP client against a scripted server that answers 60 % of 1..10 requests with "
                "mutated responses, hostile status lines / header / Set-Cookie values or garbage, dribbled; AddressSanitizer+UBSan build (annotated containers) and plain build with allocation watch; "
                + NONTRIVIAL,
        "probes_expected": ["hostile-input-served", "hostile-input-error-400", "hostile-input-error-413", "hostile-input-error-500", "hostile-input-unanswered",
                            "hostile-response-accepted", "hostile-response-rejected", "well-formed-exchange", "trickled-request-served"],
        "assumptions": ["only what a network peer can reach is covered: the request parser inside a running endpoint, the response parser inside a running client; the value parsers are reached through HeadersStep only",
                        "allocation bound: no single allocation above 4 x maximum request size + 64 KiB while the hostile input is handled (plain build)"],
        "quick": {"batches": [("c03_hostile", "asan", 5000), ("c03_hostile", "plain", 20000), ("c15_hostile_server", "asan", 2500), ("c15_hostile_server", "plain", 8000)], "chunk": 200},
        "thorough": {"batches": [("c03_hostile", "asan", 60000), ("c03_hostile", "plain", 200000), ("c15_hostile_server", "asan", 40000), ("c15_hostile_server", "plain", 100000), ("c01_l0", "asan", 30000)], "chunk": 500},
    },
    "C01": {
        "rule": "L0: one generated request or response per run (methods, paths, 0..4 query parameters, registered and unknown headers, cookies, no body / "
                "Content-Length / chunked bodies whose chunk sizes cross hex-digit boundaries; 35 % with one small mutation) delivered to a fresh parser "
                "in EVERY single cut and byte-by-byte (enumerated completely) plus 10..24 drawn multi-cut segmentations, compared with delivery of the "
                "whole message at once; L1: 1..5 generated requests sent whole and cut through simulated sockets to a real endpoint; distinct = "
                "distinct (scenario, plan hash, event-log hash); a run is non-trivial if at least one segmentation was delivered",
        "probes_expected": ["chunked-with-trailer-section", "request-complete", "request-error", "request-incomplete", "response-complete", "response-error", "response-incomplete",
                            "cut-inside-crlf", "cut-inside-chunk-framing", "trailing-bytes-after-message", "l1-served", "l1-error-status", "l1-unanswered"],
        "assumptions": ["messages up to the configured size limit (beyond it C14 applies)",
                        "for a mutated byte string the message proper is its shortest complete prefix; bytes after it belong to what follows"],
        "quick": {"batches": [("c01_l0", "plain", 10000), ("c01_l1", "plain", 6000), ("c01_l0", "asan", 1200)], "chunk": 100},
        "thorough": {"batches": [("c01_l0", "plain", 300000), ("c01_l1", "plain", 60000), ("c01_l0", "asan", 30000), ("c01_l1", "asan", 6000)], "chunk": 500},
    },
    "C04": {
        "rule": "L0: sequences of 2..8 generated messages (complete, or abandoned by an error in mid-message: size limit, bad chunk size, conflicting "
                "framing, other mutations), each in its own drawn segmentation, on one reused parser (reset where Handler::onInput / "
                "Connection::handleResponsePacket reset it) versus a fresh parser per message; L1: the same sequences on one keep-alive connection "
                "to a real endpoint versus a fresh connection per message; c04_client: the real HTTP client with one pooled connection, 2..8 requests one after the other, a scripted server that answers "
                "with well-formed responses or with responses the client must refuse (too long, bad chunk size, header line without colon) whose last byte arrives with the read that makes the client refuse them; distinct = distinct (scenario, plan hash, event-log hash)",
        "probes_expected": ["after-first", "after-complete-no-body", "after-complete-content-length", "after-complete-chunked", "after-error-413-in-oversized-body",
                            "after-error-400-in-chunked", "after-error-400-in-content-length", "l1-after-first", "l1-fresh-connection-on-a-number-dropped-in-mid-message", "l1-after-complete-chunked",
                            "l1-after-error-413-in-oversized-body", "after-too-long", "after-too-long-tail", "after-bad-chunk", "after-bad-header", "after-good", "parked-request-timed-out"],
        "assumptions": ["every message starts in a new segment (pipelining inside one read is outside the statement)",
                        "an abandoned message ends with the segment that triggers the framework's error answer"],
        "quick": {"batches": [("c04_l0", "plain", 40000), ("c04_l1", "plain", 8000), ("c04_l0", "asan", 4000), ("c04_client", "plain", 12000), ("c04_client", "asan", 1500), ("c04_timeout", "plain", 4000)], "chunk": 500},
        "thorough": {"batches": [("c04_l0", "plain", 400000), ("c04_l1", "plain", 40000), ("c04_l0", "asan", 40000), ("c04_l1", "asan", 4000), ("c04_client", "plain", 150000), ("c04_client", "asan", 15000), ("c04_timeout", "plain", 40000), ("c04_timeout", "asan", 4000)], "chunk": 500},
    },
    "C08": {
        "rule": "1..4 rounds of 1..6 concurrent connections against Http::Endpoint (75 %) or a raw Tcp::Listener (25 %), client behaviour drawn per "
                "connection from 32 kinds (orderly, close mid-request, half-close, RST idle / with unread data / with pending writes, silence, partial "
                "request then silence, giving up near the idle time-out, stalled reader across idle scans - also one that sends again the moment it wakes up -, response time-outs armed/disarmed, file "
                "responses completed or aborted, replies from another thread aborted, never answered, chunked streams, reset right behind a request); a tenth of the runs each concentrate on clients that leave at about the moment "
                "an application thread answers them, and on streamed responses (flush) next to clients that reset; thread stalls and slow thread starts injected; " + NONTRIVIAL,
        "probes_expected": ["behaviour-" + b for b in ["orderly", "close-mid-request", "half-close", "rst-idle", "rst-unread", "rst-pending", "silence",
                            "partial-then-silence", "tmo", "tmoreply", "file", "file-abort", "async-abort", "never-close", "stream",
                            "silence-close-near-timeout", "silence-abort-near-timeout", "stall-beyond-timeout",
                            "abandon-at-once-close", "abandon-at-once-abort", "abandon-at-once-half-close", "tmo-then-close", "tmo-then-abort", "stall-resume-trickle", "request-then-abort-quickly", "async-close", "tmo-moved", "stall-then-leave", "stream-then-abort-quickly", "busy", "tmo-park", "notify"]],
        "assumptions": ["the descriptor census is taken after all clients are gone and the longest time-out plus 1.5 s have elapsed"],
        "quick": {"batches": [("c08_lifecycle", "plain", 15000), ("c08_moved_timeout", "plain", 64), ("c08_moved_timeout", "asan", 64), ("c08_lifecycle", "asan", 1500), ("c08_lifecycle", "tsan", 500), ("c08_lifecycle", "tsanat", 4000)], "chunk": 100},
        "thorough": {"batches": [("c08_lifecycle", "plain", 80000), ("c08_moved_timeout", "plain", 500), ("c08_moved_timeout", "asan", 500), ("c08_lifecycle", "asan", 8000), ("c08_lifecycle", "tsan", 8000), ("c08_lifecycle", "tsanat", 30000)], "chunk": 200},
    },
    "C14": {
        "rule": "size limit drawn from 64 B..8 KiB, header/body time-outs from 1..10 s (all orders), 1..3 workers; per connection either a request of "
                "total size limit-1 / limit / limit+1 / random (Content-Length or chunked) in a drawn segmentation, or a stall at a drawn point "
                "(connect, request line, headers, body, between keep-alive requests) for a duration outside the band [T-0.3 s, T+0.8 s], or a chain of 3..6 prompt keep-alive requests whose idle gaps are each below the "
                "time-out while the connection outlives it; " + NONTRIVIAL,
        "probes_expected": ["wall-clock-stepped", "busy-worker", "size-limit-minus-1", "size-at-limit", "size-limit-plus-1", "size-over", "size-under", "several-workers-used", "chain-outlives-time-out"]
                           + ["stall-%s-%s" % (p, o) for p in ("connect", "line", "headers", "body", "between") for o in ("over", "under")],
        "assumptions": ["time-outs count from the moment the server starts expecting the request (connection accepted / previous request completed)",
                        "stall durations inside [T-0.3 s, T+0.8 s] are not judged (the half-second scan makes them undecidable)"],
        "quick": {"batches": [("c14_limits", "plain", 30000), ("c14_limits", "asan", 1500)], "chunk": 200},
        "thorough": {"batches": [("c14_limits", "plain", 200000), ("c14_limits", "asan", 10000)], "chunk": 500},
    },
    "C06": {
        "rule": "1..3 connections x 1..8 writes (sizes 0..256 KiB, raw or file buffers, issued from the event-loop thread or an application thread) "
                "against per-connection socket buffers/segment sizes/latencies and reader pacing drawn per run; short writes, would-block, spurious "
                "EAGAIN, EINTR and per-call caps injected by the simulated kernel; " + NONTRIVIAL,
        "probes_expected": ["many-small-writes-on-one-connection", "bulk-input-without-write-while-writes-pending", "eagain-branch", "short-write", "write-from-foreign-thread", "file-buffer", "file-buffer-with-would-block",
                            "input-without-write-while-writes-pending", "http-size", "http-async", "http-file", "http-stream", "http-astream", "http-hints", "http-astreamp"],
        "assumptions": ["liveness is judged 20 simulated seconds beyond three times what the reader's own pace needs"],
        "quick": {"batches": [("c06_writes", "plain", 8000), ("c06_small", "plain", 10000), ("c06_http", "plain", 8000), ("c06_small", "tsan", 3000), ("c06_http", "tsan", 800), ("c06_small", "tsanat", 3000)], "chunk": 100},
        "thorough": {"batches": [("c06_writes", "plain", 150000), ("c06_small", "plain", 150000), ("c06_http", "plain", 150000), ("c06_small", "tsan", 30000), ("c06_small", "asan", 30000), ("c06_http", "tsan", 15000), ("c06_http", "asan", 15000), ("c06_small", "tsanat", 30000), ("c06_http", "tsanat", 3000)], "chunk": 500},
    },
    "C07": {
        "rule": "one worker; connection 0 requests 1..4 responses larger than its buffers and stops reading for 0.2..3 s; 1..3 neighbour connections "
                "issue small requests before, during and after the stall; c07_http: the same through the HTTP layer (one worker; the stalled connection asks for fixed-length responses, "
                "replies from an application thread, files and chunked streams whose handler flushes every chunk on the worker thread; keep-alive neighbours); " + NONTRIVIAL,
        "probes_expected": ["eagain-branch", "short-write", "stalled-size", "stalled-async", "stalled-file", "stalled-stream", "stalled-astream", "stalled-hints", "stalled-astreamp", "neighbour-crowd", "stalled-across-idle-scans", "during-stall-next-head", "during-stall-whole-request", "during-stall-upload", "bulk-input-without-write-while-writes-pending"],
        "assumptions": ["latency bound for neighbours: 100 simulated ms (quanta are microseconds; no thread stalls are injected in this scenario)"],
        "quick": {"batches": [("c07_stall", "plain", 3000), ("c06_writes", "plain", 4000), ("c07_http", "plain", 5000), ("c07_http", "asan", 500)], "chunk": 50},
        "thorough": {"batches": [("c07_stall", "plain", 30000), ("c06_writes", "plain", 50000), ("c07_http", "plain", 60000), ("c07_http", "asan", 5000), ("c07_http", "tsan", 5000)], "chunk": 200},
    },
    "C09": {
        "rule": "endpoint with 1..4 workers and a shared Rest::Router; 2..8 keep-alive clients x 1..6 requests with unique tags over routed methods, "
                "unrouted paths (404/405) and methods without any route, 12 % of the request bodies spanning several receive buffers, 5 % of the runs with a crowd of 70..120 clients that send at the same instant; shutdown() after the load or at a drawn instant in the middle of it, then "
                "destruction; thread stalls injected; plain and ThreadSanitizer builds; e2e_client_server: the endpoint (1..3 workers, replies also from an application thread, streams, files) "
                "under the real HTTP client instead of scripted peers, shut down in mid-load in a fifth of the runs; c13_transport: replies from an application thread to connections that leave while a latecomer is accepted under the same descriptor number (a response must reach the connection it was computed for and no other); " + NONTRIVIAL,
        "probes_expected": ["latecomer-on-a-reused-descriptor", "crowd", "request-larger-than-a-receive-buffer", "aborted-at-accept", "shutdown-from-handler", "blocking-serve", "kind-echo", "kind-async", "kind-stream", "shutdown-idle", "shutdown-with-load", "shutdown-with-connections-open", "shutdown-with-requests-in-flight",
                            "method-not-allowed", "not-found", "method-without-route-table", "late-client"],
        "assumptions": [],
        "quick": {"batches": [("c09_serving", "plain", 15000), ("c09_serving", "tsan", 2500), ("c09_serving", "tsanat", 6000),
                              ("e2e_client_server", "plain", 4000), ("e2e_client_server", "tsan", 1000), ("c13_transport", "plain", 8000)], "chunk": 100},
        "thorough": {"batches": [("c09_serving", "plain", 100000), ("c09_serving", "tsan", 20000), ("c09_serving", "tsanat", 60000),
                                 ("e2e_client_server", "plain", 60000), ("e2e_client_server", "tsan", 10000), ("e2e_client_server", "tsanat", 10000), ("c13_transport", "plain", 100000)], "chunk": 500},
    },
    "C11": {
        "rule": "promise programs (1..4 roots, 1..10 then/whenAll/whenAny/whenAll(range) nodes, continuation kinds value/void/"
                "resolved-promise/pending-promise/rejected-promise, handlers ignore/rethrow/custom) with one attach/settle action per node, "
                "distributed over 1..3 simulated parties; the scheduler orders whole actions; a reference model replays the executed order; the values are of a type that shows when the "
                "object stored in a promise has been moved from; c12_combinators (shared with C12): the inputs of whenAll/whenAny settled by two threads at once; "
                + NONTRIVIAL,
        "probes_expected": ["then-value", "then-void", "then-resolved", "then-pending", "then-rejected", "whenAll", "whenAny", "whenAllRange",
                            "settle-reject", "settle-fulfil", "expect-fulfil", "expect-reject", "left-open"],
        "assumptions": ["what flows past a rejection handler that does not rethrow, and the promise derived from a continuation that returns nothing, are left open (the statement does not constrain them)"],
        "quick": {"batches": [("c11_programs", "plain", 200000), ("c11_programs", "asan", 10000), ("c12_combinators", "plain", 60000)], "chunk": 2000},
        "thorough": {"batches": [("c11_programs", "plain", 1500000), ("c11_programs", "asan", 60000), ("c12_combinators", "plain", 600000), ("c12_combinators", "tsan", 60000)], "chunk": 5000},
    },
    "C12": {
        "rule": "one settling thread and 1..2 attaching threads on a promise family of 8 shapes (root, derived by value/void/promise-returning "
                "continuations, chain of two, void root), fulfil or reject, derived promise pre-built or built by the attacher; and two settling threads "
                "feeding whenAll/whenAny while a third attaches to (or builds) the combinator; interleavings at the "
                "yield points of async.h and at every lock operation; " + NONTRIVIAL,
        "probes_expected": ["shape-root", "shape-derived-value", "shape-derived-void", "shape-derived-resolved-promise", "shape-derived-pending-promise",
                            "shape-derived-chain2", "shape-void-root", "shape-void-derived", "shape-void-derived-pending-promise", "inner-promise-rejected", "settle-reject", "attacher-builds-chain",
                            "combinator-all", "combinator-any", "combinator-all-range-void", "combinator-all-range-int", "combinator-with-rejection"],
        "assumptions": ["the promise derived from a continuation that returns nothing is never fulfilled by design; only at-most-once is demanded for continuations attached to it"],
        "quick": {"batches": [("c12_settle_attach", "plain", 150000), ("c12_settle_attach", "tsan", 15000), ("c12_combinators", "plain", 60000), ("c12_combinators", "tsan", 8000), ("c12_settle_attach", "tsanat", 30000), ("c12_combinators", "tsanat", 20000), ("c12_settle_attach", "asan", 8000), ("c12_combinators", "asan", 4000)], "chunk": 2000},
        "thorough": {"batches": [("c12_settle_attach", "plain", 1500000), ("c12_settle_attach", "tsan", 150000), ("c12_combinators", "plain", 600000), ("c12_combinators", "tsan", 80000), ("c12_settle_attach", "tsanat", 300000), ("c12_combinators", "tsanat", 200000), ("c12_settle_attach", "asan", 80000), ("c12_combinators", "asan", 40000)], "chunk": 5000},
    },
    "C13": {
        "rule": "plans (1..4 producers x 1..5 pushes, start delays, gaps, prefill, pollable or plain queue) and schedules "
                "(uniform random / PCT / sticky) drawn from VERIF_SEED; c13_transport: the queues' real consumers - the event loops of Tcp::Transport - with 2..8 connections arriving at about "
                "the same time on 1..2 workers and an application thread that arms response time-outs (timers queue) and sends replies (writes queue) for them back to back; " + NONTRIVIAL,
        "probes_expected": ["consumer-woken", "prefilled-before-consumer", "plain-queue", "kind-tmoasync", "kind-async", "kind-async-gone", "kind-busy", "crowd", "kind-park", "kind-notify", "latecomer-on-a-reused-descriptor"],
        "assumptions": ["single consumer (as in Pistache's own use of the queue)"],
        "quick": {"batches": [("c13_queue", "plain", 150000), ("c13_queue", "tsan", 15000), ("c13_queue", "tsanat", 30000), ("c13_transport", "plain", 20000), ("c13_transport", "tsan", 2000)], "chunk": 2000},
        "thorough": {"batches": [("c13_queue", "plain", 1000000), ("c13_queue", "tsan", 150000), ("c13_queue", "tsanat", 300000), ("c13_transport", "plain", 300000), ("c13_transport", "tsan", 30000), ("c13_transport", "tsanat", 30000)], "chunk": 5000},
    },
}

SC_NOTE = "sequentially consistent memory; the simulated kernel follows Linux semantics; a clean batch is evidence, not proof"
MANIFEST_TEXT = {
    "C15": {"level": "seeded search over request batches, server behaviours, connection limits and schedules of issuing and client threads, with settlement, own-response, bounded-liveness, time-out and connection-limit oracles; ThreadSanitizer inside the simulation",
            "design_ref": "4.12", "note": "violations on a connection that was reused after a time-out are attributed to that recorded finding (known_findings.json); everything else is reported; " + SC_NOTE},
    "C03": {"level": "seeded search over hostile byte strings x segmentations delivered through simulated sockets to the real endpoint, with memory-safety and undefined-behaviour detection by the sanitizers inside the simulation, hang detection by a wall-clock watchdog, and an allocation watch",
            "design_ref": "4.2", "note": "sanitizer coverage is that of AddressSanitizer/UBSan on the paths the inputs reach; " + SC_NOTE},
    "C01": {"level": "every single cut and the byte-by-byte delivery of each generated message enumerated completely, multi-cut segmentations sampled, differential against whole-at-once delivery; confirmed through simulated sockets against the real endpoint",
            "design_ref": "4.1", "note": "differential oracle against the same build (no second opinion about HTTP); the exhaustive sub-space is per generated message, the space of messages is sampled; " + SC_NOTE},
    "C04": {"level": "seeded search over message sequences x segmentations x abandon points, differential between a reused and a fresh parser / connection",
            "design_ref": "4.3", "note": "the L0 part drives the parser with the reset protocol of Handler::onInput; the reset call sites themselves are exercised by the L1 part (real endpoint) and by C15 (real client); " + SC_NOTE},
    "C08": {"level": "seeded search over connection-event histories (32 client behaviours, 1..6 concurrent connections, several rounds) with callback-sequence, exactly-once-release, descriptor-census and peer-release oracles",
            "design_ref": "4.6", "note": "double releases are observed by the simulated kernel (close / epoll_ctl / I/O on a descriptor that is not open); " + SC_NOTE},
    "C14": {"level": "seeded search over request sizes around the drawn limit x segmentations, and over stall points x stall durations on either side of the drawn time-outs, on the simulated clock",
            "design_ref": "4.11", "note": "durations within 0.3 s below / 0.8 s above a time-out are not judged; " + SC_NOTE},
    "C06": {"level": "seeded search over write sequences, issuing threads, socket-buffer geometries, reader pacing and placements of short-write / would-block results; stream, promise, liveness and descriptor oracles on every run",
            "design_ref": "4.4", "note": "real Tcp::Listener/reactor/Transport on the simulated kernel; " + SC_NOTE},
    "C07": {"level": "seeded search over placements and durations of a would-block period on one connection relative to requests on neighbour connections of the same worker; latency, busy-wait and delivery oracles",
            "design_ref": "4.5", "note": "busy-wait is detected by the simulated kernel (EAGAIN streaks without epoll_wait, wake-ups without progress); " + SC_NOTE},
    "C09": {"level": "seeded search over interleavings of workers, acceptor, clients and the shutdown point; ThreadSanitizer inside the simulation judges framework-internal shared state",
            "design_ref": "4.7", "note": "the baton is invisible to ThreadSanitizer, so reports depend only on Pistache's own synchronisation and the chosen schedule; " + SC_NOTE},
    "C11": {"level": "seeded search over promise programs and over the orders in which their attach and settle actions execute, each run checked against an executable reference model of the clauses of C11",
            "design_ref": "4.8", "note": "actions are atomic with respect to each other (races are C12's subject); " + SC_NOTE},
    "C12": {"level": "seeded search over interleavings of one settling and 1..2 attaching threads at the granularity of lock operations and the state/list accesses of the promise core, plain and ThreadSanitizer builds",
            "design_ref": "4.9", "note": "interleavings at the yield points in async.h and at lock operations; ThreadSanitizer judges the program's own synchronisation (the scheduler's baton is invisible to it); " + SC_NOTE},
    "C13": {"level": "seeded search over interleavings of 1..4 producers and the epoll consumer on the real PollableQueue, plain and ThreadSanitizer builds",
            "design_ref": "4.10", "note": "interleavings at the yield points in mailbox.h and at every eventfd/epoll call; " + SC_NOTE},
}
PURE = "pure function of its input; no schedule, clock, fault or interleaving in it (needs property-based testing or bounded model checking, which this task does not study)"
NOT_APPLICABLE = {
    "C02": "round trip builder -> handler / writer -> client is a " + PURE,
    "C05": "emitted framing is a pure function of (status, headers, cookies, body or chunks, maximum response size); the transport part is C06",
    "C10": "routing precedence is a pure function of (route table, path, method)",
    "C16": "typed header round trip: " + PURE,
    "C17": "cookie round trip: " + PURE,
    "C18": "media type round trip: " + PURE,
    "C19": "address/port text forms: " + PURE,
    "C20": "Base64 / Basic credentials: " + PURE,
}
