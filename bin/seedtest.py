#!/usr/bin/env python3
"""Runs checks against a seeded change: applies seeded/<id>/patch.diff to /repo, runs the named
checks (default: the property the change targets), records what they reported in
seeded/<id>/detection.json, and undoes the change (git -C /repo checkout -- .). Evidence files are
saved and restored, so evidence never comes from a modified tree.

  bin/seedtest.py <id> [--props C06,C07] [--tier quick] [--scale F]
"""
import json
import os
import shutil
import subprocess
import sys
import time

VERIF = os.path.dirname(os.path.dirname(os.path.abspath(__file__)))
REPO = os.environ.get("REPO", "/repo")  # a scratch worktree of /repo when several changes are tried side by side


def main():
    sid = sys.argv[1]
    base = "seeded"
    if "--dir" in sys.argv:
        base = sys.argv[sys.argv.index("--dir") + 1]
    d = os.path.join(VERIF, base, sid)
    meta = json.load(open(os.path.join(d, "meta.json")))
    props = [meta["property"]]
    tier = "quick"
    scale = None
    a = sys.argv[2:]
    while a:
        if a[0] == "--props":
            props = a[1].split(",")
            a = a[2:]
        elif a[0] == "--tier":
            tier = a[1]
            a = a[2:]
        elif a[0] == "--scale":
            scale = a[1]
            a = a[2:]
        else:
            a = a[1:]
    st = subprocess.run(["git", "-C", REPO, "status", "--porcelain", "--untracked-files=no"], stdout=subprocess.PIPE, text=True).stdout.strip()
    if st:
        print("refusing: " + REPO + " has uncommitted changes:\n" + st)
        return 2
    patch = os.path.join(d, "patch.diff")
    r = subprocess.run(["git", "-C", REPO, "apply", patch], stdout=subprocess.PIPE, stderr=subprocess.STDOUT, text=True)
    if r.returncode != 0:
        print("patch does not apply:\n" + r.stdout)
        return 2
    saved = os.path.join(VERIF, "build", "evidence-saved")
    shutil.rmtree(saved, ignore_errors=True)
    if os.path.isdir(os.path.join(VERIF, "evidence")):
        shutil.copytree(os.path.join(VERIF, "evidence"), saved)
    results = []
    try:
        for p in props:
            cmd = [os.path.join(VERIF, "bin", "check"), p, "--tier", tier]
            if scale:
                cmd += ["--runs-scale", scale]
            t0 = time.time()
            env = dict(os.environ)
            env["VERIF_REPLAY_DIR"] = os.path.join(VERIF, "build", "seeded-replays", sid)
            c = subprocess.run(cmd, stdout=subprocess.PIPE, stderr=subprocess.STDOUT, text=True, cwd=VERIF, env=env)
            lines = c.stdout.splitlines()
            sigs = [l.strip()[len("signature: "):] for l in lines if l.strip().startswith("signature: ")]
            details = [l.strip()[len("detail: "):][:400] for l in lines if l.strip().startswith("detail: ")]
            summary = [l for l in lines if " quick: " in l or " thorough: " in l]
            results.append({"check": p, "tier": tier, "exit": c.returncode, "detected": c.returncode == 1, "signatures": sigs,
                            "details": details, "summary": summary[-1] if summary else "", "wall_s": round(time.time() - t0, 1)})
            print("%s on seeded %s: exit %d %s (%.0fs)" % (p, sid, c.returncode, sigs, time.time() - t0))
            if c.returncode not in (0, 1):
                print(c.stdout[-3000:])
    finally:
        subprocess.run(["git", "-C", REPO, "checkout", "--", "."], check=False)
        if os.path.isdir(saved):
            shutil.rmtree(os.path.join(VERIF, "evidence"), ignore_errors=True)
            shutil.copytree(saved, os.path.join(VERIF, "evidence"))
    out = os.path.join(d, "detection.json")
    prev = json.load(open(out)) if os.path.exists(out) else []
    stamp = subprocess.run(["git", "-C", VERIF, "rev-parse", "--short", "HEAD"], stdout=subprocess.PIPE, text=True).stdout.strip()
    for r_ in results:
        r_["verif_commit"] = stamp
    json.dump(prev + results, open(out, "w"), indent=1)
    return 0


if __name__ == "__main__":
    sys.exit(main())
