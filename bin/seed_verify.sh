#!/bin/bash
# verify.sh <PROP> <A|B> : confirms a delivered seeded change in its scratch worktree
# usage: WT_PREFIX=/tmp/wt6- SEED_LOG_DIR=/tmp/r6 bin/seed_verify.sh <PROP> <A|B>   (confirms a sub-agent's change in its scratch worktree: build, ctest, demo with / without)
P=$1; V=$2; WT=${WT_PREFIX:-/tmp/wt-}$P; D=$WT/seeded/$V; LOG=${SEED_LOG_DIR:-/tmp/seedlogs}/verify-$P-$V.log
exec > $LOG 2>&1
cd $WT || exit 9
git checkout -q -- . 
echo "== status before"; git status --short | grep -v '^??' 
echo "== apply"; git apply $D/patch.diff || { echo APPLY-FAILED; exit 8; }
echo "== diff stat"; git diff --stat
echo "== build with change"; cmake --build $WT/_build -j5 2>&1 | tail -2
echo "== ctest with change"; ctest --test-dir $WT/_build -j3 --timeout 900 2>&1 | grep -E "tests passed|Failed|FAILED|\(Failed\)" 
echo "== demo with change"; timeout 900 bash $D/demo/run.sh > ${SEED_LOG_DIR:-/tmp/seedlogs}/demo-$P-$V-with.log 2>&1; echo "rc_with=$?"; tail -5 ${SEED_LOG_DIR:-/tmp/seedlogs}/demo-$P-$V-with.log
git checkout -q -- .
echo "== demo on baseline"; timeout 900 bash $D/demo/run.sh > ${SEED_LOG_DIR:-/tmp/seedlogs}/demo-$P-$V-without.log 2>&1; echo "rc_without=$?"; tail -3 ${SEED_LOG_DIR:-/tmp/seedlogs}/demo-$P-$V-without.log
echo "== restored"; git status --short | grep -v '^??'
echo "== done"
