// C04, client side, at the level of the real client: successive responses on one pooled connection are
// parsed independently. A real Http::Experimental::Client with ONE connection per host issues 2..8 requests
// one after the other; a scripted server answers each on the connection it arrived on, in 1..3 segments,
// either with a well-formed response or with a response that the client must refuse (larger than the
// maximum response size, a bad chunk size, a header line without a colon). A refused response is built so
// that the read which makes the client refuse it also carries its last byte: nothing of it is still on the
// way when the next request goes out, so whatever disturbs the next response was kept by the client.
// Oracle (reference: the same exchange on a fresh connection, where a well-formed response is always
// accepted): every well-formed response fulfils its request with exactly its own body, whatever came before
// on the connection; every promise is settled at most once.
#include <pistache/client.h>
#include <pistache/http.h>

#include <deque>
#include <mutex>
#include <thread>

#include "actors.h"
#include "msggen.h"
#include "scenario.h"

using namespace scen;
using namespace Pistache;
using sim::i64;
using sim::u64;

namespace {

Json gen(sim::Rng& rng, int tier)
{
    Json p = Json::object();
    long max_resp = static_cast<long>(400 + rng.below(2600));
    p["max_resp"] = max_resp;
    int n = static_cast<int>(rng.range(2, tier ? 8 : 6));
    Json reqs = Json::array();
    u64 tag = 100000 + rng.below(800000);
    for (int k = 0; k < n; ++k) {
        Json q = Json::object();
        q["tag"] = static_cast<long long>(++tag);
        int kd = static_cast<int>(rng.below(10));
        q["kind"] = kd < 5 ? "good" : kd < 7 ? "too-long" : kd < 9 ? "bad-chunk" : "bad-header";
        q["chunked"] = rng.chance(0.4);
        q["body_len"] = static_cast<int>(rng.below(static_cast<u64>(std::max<long>(1, max_resp - 200))));
        q["over"] = static_cast<int>(50 + rng.below(600));
        q["cut1_permille"] = static_cast<int>(1 + rng.below(998));
        q["cut2_permille"] = static_cast<int>(1 + rng.below(998));
        q["segments"] = static_cast<int>(rng.range(1, 3));
        q["gap_us"] = static_cast<int>(200 + rng.below(3000));
        // a refused response may also be refused before its last byte: the rest (a few dozen bytes that cannot be taken for the
        // beginning of a response) arrives a little later, while no request is pending, and well before the next request
        q["tail"] = rng.chance(0.5);
        reqs.push(q);
    }
    p["requests"] = reqs;
    p["latency_us"] = static_cast<int>(5 + rng.below(300));
    gen_sched(rng, p, 3000, false);
    return p;
}

struct ReqState {
    u64 tag = 0;
    std::string kind;
    std::vector<std::string> segments; // what the server sends
    std::string want_body;             // for good responses
    i64 gap_ns = 0;
    int fulfilled = 0, rejected = 0, status = 0;
    std::string got, error;
    bool reached_server = false, answered = false;
};

struct Server {
    int port = 9080;
    std::map<u64, ReqState*> by_tag;
    struct Conn {
        std::shared_ptr<simk::ActorSock> sock;
        actors::HttpReader reader;
        size_t handled = 0;
        bool open = true;
    };
    std::vector<std::shared_ptr<Conn>> conns;
    void start()
    {
        simk::ActorSock::listen(port, [this](std::shared_ptr<simk::ActorSock> s) {
            auto c = std::make_shared<Conn>();
            c->sock = s;
            c->reader.requests = true;
            conns.push_back(c);
            std::weak_ptr<Conn> wc = c;
            s->set_callback([this, wc](uint32_t ev) {
                auto c2 = wc.lock();
                if (c2) on_event(c2, ev);
            });
        });
    }
    void on_event(const std::shared_ptr<Conn>& c, uint32_t ev)
    {
        if (!c->open) return;
        if (ev & (simk::ActorSock::Readable | simk::ActorSock::PeerFin)) {
            char tmp[8192];
            for (;;) {
                size_t n = c->sock->recv(tmp, sizeof tmp);
                if (n == 0) break;
                c->reader.feed(tmp, n);
            }
            while (c->handled < c->reader.done.size()) handle(c, c->reader.done[c->handled++]);
            if (c->sock->peer_fin()) {
                c->open = false;
                c->sock->close();
            }
        }
        if (ev & simk::ActorSock::Reset) {
            c->open = false;
            c->sock->close();
        }
    }
    void send_segment(const std::shared_ptr<Conn>& c, ReqState* rs, size_t i)
    {
        if (!c->open) return;
        c->sock->send(rs->segments[i].data(), rs->segments[i].size());
        if (i + 1 < rs->segments.size()) sim::schedule_in(rs->gap_ns, [this, c, rs, i] { send_segment(c, rs, i + 1); }, "server.segment");
        else rs->answered = true;
    }
    void handle(const std::shared_ptr<Conn>& c, const actors::HttpMsg& req)
    {
        u64 tag = 0;
        size_t p = req.target.find("/r/");
        if (p != std::string::npos) tag = strtoull(req.target.c_str() + p + 3, nullptr, 10);
        auto it = by_tag.find(tag);
        if (it == by_tag.end()) return;
        it->second->reached_server = true;
        send_segment(c, it->second, 0);
    }
};

std::vector<std::string> cut(const std::string& s, int nseg, i64 c1, i64 c2, size_t lo, size_t hi)
{
    // 1..3 segments with cuts in [lo, hi)
    std::vector<size_t> cuts;
    if (hi > s.size()) hi = s.size();
    if (nseg >= 2 && hi > lo + 1) cuts.push_back(lo + static_cast<size_t>(c1) * (hi - lo - 1) / 1000 + 1);
    if (nseg >= 3 && hi > lo + 2) cuts.push_back(lo + static_cast<size_t>(c2) * (hi - lo - 1) / 1000 + 1);
    std::sort(cuts.begin(), cuts.end());
    cuts.erase(std::unique(cuts.begin(), cuts.end()), cuts.end());
    std::vector<std::string> out;
    size_t prev = 0;
    for (size_t x : cuts) {
        if (x <= prev || x >= s.size()) continue;
        out.push_back(s.substr(prev, x - prev));
        prev = x;
    }
    out.push_back(s.substr(prev));
    return out;
}

void run(const Json& plan)
{
    sim::Recorder& r = sim::rec();
    Server srv;
    simk::faults().client_side.latency_ns = simk::faults().server_side.latency_ns = std::max<i64>(1, plan.num("latency_us", 50)) * 1000;
    // a segment of the script arrives in one piece (the refusal must come with the response's last byte)
    simk::faults().server_side.mss = 262144;
    simk::faults().server_side.sndbuf = simk::faults().server_side.rcvbuf = 1 << 20;
    const size_t max_resp = static_cast<size_t>(std::max<i64>(300, std::min<i64>(plan.num("max_resp", 1000), 100000)));
    const Json& jr = plan.get("requests");
    std::deque<ReqState> reqs;
    for (size_t k = 0; k < jr.size(); ++k) {
        const Json& q = jr.at(k);
        u64 tag = static_cast<u64>(q.num("tag"));
        if (srv.by_tag.count(tag)) continue;
        reqs.emplace_back();
        ReqState& rs = reqs.back();
        rs.tag = tag;
        rs.kind = q.str("kind", "good");
        rs.gap_ns = std::max<i64>(100, q.num("gap_us", 500)) * 1000;
        std::string t = "tag=" + std::to_string(tag) + ";";
        int nseg = std::max(1, std::min(3, static_cast<int>(q.num("segments", 1))));
        i64 c1 = std::max<i64>(0, std::min<i64>(999, q.num("cut1_permille", 500))), c2 = std::max<i64>(0, std::min<i64>(999, q.num("cut2_permille", 500)));
        if (rs.kind == "too-long") {
            // head + body larger than the client's maximum response size; the first segment fits, the second (and last) does not
            size_t total_body = max_resp + static_cast<size_t>(std::max<i64>(1, q.num("over", 100)));
            std::string body = t + actors::pattern(tag, total_body);
            std::string all = actors::http_response(200, { { "Connection", "keep-alive" } }, body);
            size_t first = 20 + static_cast<size_t>(c1) * (max_resp - 40) / 1000;
            rs.segments = { all.substr(0, first), all.substr(first) };
            if (q.flag("tail") && all.size() > max_resp + 40) {
                // second segment: up to a few bytes beyond the limit (the client refuses here); third: the rest, 30+ bytes
                size_t second_end = max_resp + 8;
                rs.segments = { all.substr(0, first), all.substr(first, second_end - first), all.substr(second_end) };
                rs.gap_ns = std::min<i64>(rs.gap_ns, 600 * 1000);
                rs.kind = "too-long-tail";
            }
        } else if (rs.kind == "bad-chunk") {
            std::string head = "HTTP/1.1 200 OK\r\nTransfer-Encoding: chunked\r\nConnection: keep-alive\r\n\r\n";
            rs.segments = { head, "zz\r\n" + t + "\r\n0\r\n\r\n" };
        } else if (rs.kind == "bad-header") {
            rs.segments = { "HTTP/1.1 200 OK\r\n", "Content-Length 5\r\n\r\nhello" };
        } else {
            rs.kind = "good";
            size_t blen = static_cast<size_t>(std::max<i64>(0, q.num("body_len", 10)));
            if (blen + 200 > max_resp) blen = max_resp > 200 ? max_resp - 200 : 0;
            rs.want_body = t + actors::pattern(tag, blen);
            std::string all;
            if (q.flag("chunked")) {
                std::vector<std::string> chunks;
                size_t piece = 1 + static_cast<size_t>(c2) % 97;
                for (size_t off = 0; off < rs.want_body.size(); off += piece) chunks.push_back(rs.want_body.substr(off, piece));
                all = "HTTP/1.1 200 OK\r\nTransfer-Encoding: chunked\r\nConnection: keep-alive\r\n\r\n" + actors::chunked(chunks);
                if (all.size() > max_resp) {
                    all = actors::http_response(200, { { "Connection", "keep-alive" } }, rs.want_body);
                }
            } else
                all = actors::http_response(200, { { "Connection", "keep-alive" } }, rs.want_body);
            rs.segments = cut(all, nseg, c1, c2, 0, all.size());
        }
        srv.by_tag[tag] = &rs;
    }
    srv.start();

    Http::Experimental::Client client;
    client.init(Http::Experimental::Client::options().threads(1).maxConnectionsPerHost(1).maxResponseSize(max_resp));
    std::mutex rec_mtx;
    std::thread issuer([&] {
        sim::set_self_name("issuer");
        for (auto& rsr : reqs) {
            ReqState* rs = &rsr;
            auto rb = client.get("http://127.0.0.1:" + std::to_string(srv.port) + "/r/" + std::to_string(rs->tag));
            rb.timeout(std::chrono::milliseconds(1500));
            try {
                rb.send().then(
                    [rs, &rec_mtx](Http::Response resp) {
                        std::lock_guard<std::mutex> g(rec_mtx);
                        rs->fulfilled++;
                        rs->status = static_cast<int>(resp.code());
                        rs->got = resp.body();
                    },
                    [rs, &rec_mtx](std::exception_ptr e) {
                        std::string what = "?";
                        try {
                            std::rethrow_exception(e);
                        } catch (const std::exception& ex) {
                            what = ex.what();
                        } catch (...) {
                        }
                        std::lock_guard<std::mutex> g(rec_mtx);
                        rs->rejected++;
                        rs->error = what;
                    });
            } catch (const std::exception& e) {
                std::lock_guard<std::mutex> g(rec_mtx);
                rs->rejected++;
                rs->error = std::string("send() threw: ") + e.what();
            }
            const std::function<bool()> settled = [rs] { return rs->fulfilled + rs->rejected > 0; };
            {
                sim::IgnoreScope ig;
                sim::block_until(settled, sim::now_ns() + 4LL * 1000000000LL, "issuer.wait-settled");
            }
            // the refused response's last byte has arrived with the read that made the client refuse it; let the wire go quiet anyway
            sim::sleep_ns(2 * 1000000);
        }
    });
    issuer.join();
    sim::sleep_ns(50 * 1000000);

    {
        sim::IgnoreScope oracle_scope;
        std::string prev = "first";
        bool prev_timed_out = false;
        for (auto& rs : reqs) {
            std::string who = "request tag " + std::to_string(rs.tag) + " (" + rs.kind + " response, after " + prev + ")";
            r.probe("after-" + prev);
            if (rs.fulfilled + rs.rejected > 1) r.violation("C04.client:settled-more-than-once", who + " was settled " + std::to_string(rs.fulfilled + rs.rejected) + " times");
            if (rs.kind == "good" && rs.reached_server && rs.answered && !prev_timed_out) {
                if (!rs.fulfilled)
                    r.violation("C04.client:outcome-differs-after-" + prev, who + ": the well-formed response was not accepted (" + (rs.rejected ? "rejected: " + rs.error : std::string("never settled")) + "); on a fresh connection it is");
                else if (rs.status != 200 || rs.got != rs.want_body) {
                    size_t d = 0;
                    while (d < rs.got.size() && d < rs.want_body.size() && rs.got[d] == rs.want_body[d]) d++;
                    r.violation("C04.client:outcome-differs-after-" + prev, who + ": fulfilled with status " + std::to_string(rs.status) + " and a body of " + std::to_string(rs.got.size()) + " bytes (expected " + std::to_string(rs.want_body.size()) + ", first difference at offset " + std::to_string(d) + ")");
                }
            }
            if (rs.kind != "good") r.probe(rs.fulfilled ? "refusable-response-accepted" : rs.rejected ? "refusable-response-rejected" : "refusable-response-unsettled");
            // a request that ran into its time-out says nothing about the parser (the client gives the connection up)
            prev_timed_out = rs.rejected && rs.error == "Timeout";
            prev = rs.kind;
        }
    }
    sim::quiesce(2LL * 1000000000LL);
    client.shutdown();
    simk::ActorSock::unlisten(srv.port);
    for (auto& c : srv.conns)
        if (c->open) c->sock->close();
}

Scenario sc { "c04_client", "C04", "real HTTP client, one pooled connection: well-formed responses after refused ones (too long, bad chunk size, bad header line)", gen, run };
Registrar reg(&sc);

} // namespace
