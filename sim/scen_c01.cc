// C01 — HTTP message parsing does not depend on how the bytes are segmented.
//
// L0 (stream seam): a generated request or response (well-formed or with one small mutation)
// is delivered to a fresh Http::RequestParser / Http::ResponseParser segment by segment, with
// parse() after every feed as Handler::onInput and Connection::handleResponsePacket do. Every
// single cut and the byte-by-byte delivery are enumerated completely, multi-cut segmentations
// are drawn (biased to CRLF pairs and chunk framing). Oracle (differential against delivery
// of the whole message at once to a fresh parser of the same build): completion exactly at
// the segment that delivers the last byte, identical parsed message, identical error status.
// L1: the same messages travel through simulated sockets to a real Http::Endpoint, once in one
// piece and once cut, and what the handler saw / what status came back must agree.
#include "actors.h"
#include "httpworld.h"
#include "msggen.h"
#include "scenario.h"

using namespace scen;
using namespace Pistache;
using sim::i64;
using sim::u64;

namespace {

struct Outcome {
    enum K { Again, Done, Error } kind = Again;
    int code = 0;
    std::string what;
    size_t at = 0;       // segment index at which Done/Error was reported
    size_t segments = 0;
    std::string snap;
    std::string str() const
    {
        if (kind == Again) return "need-more-data after " + std::to_string(segments) + " segment(s)";
        if (kind == Done) return "complete at segment " + std::to_string(at + 1) + "/" + std::to_string(segments);
        return "error " + std::to_string(code) + " (" + what + ") at segment " + std::to_string(at + 1) + "/" + std::to_string(segments);
    }
};

template <typename Parser, typename SnapFn>
Outcome deliver(const std::string& msg, const std::vector<size_t>& cuts, size_t max_size, SnapFn snap, u64* feeds)
{
    Outcome o;
    Parser parser(max_size);
    std::vector<size_t> ends(cuts);
    ends.push_back(msg.size());
    o.segments = ends.size();
    size_t start = 0;
    for (size_t i = 0; i < ends.size(); ++i) {
        size_t end = ends[i];
        if (end <= start) continue;
        if (feeds) ++*feeds;
        sim::heartbeat(); // the harness is alive; a feed()/parse() that never returns still ends in verdict hang
        try {
            if (!parser.feed(msg.data() + start, end - start)) {
                o.kind = Outcome::Error;
                o.code = 413;
                o.what = "exceeds maximum size";
                o.at = i;
                return o;
            }
            auto st = parser.parse();
            if (st == Http::Private::State::Done) {
                o.kind = Outcome::Done;
                o.at = i;
                o.snap = snap(parser);
                return o;
            }
        } catch (const Http::HttpError& e) {
            o.kind = Outcome::Error;
            o.code = e.code();
            o.what = e.reason();
            o.at = i;
            return o;
        } catch (const std::exception& e) {
            o.kind = Outcome::Error;
            o.code = 500;
            o.what = e.what();
            o.at = i;
            return o;
        }
        start = end;
    }
    return o;
}

std::string cuts_str(const std::vector<size_t>& c)
{
    std::string s = "[";
    for (size_t i = 0; i < c.size() && i < 12; ++i) s += (i ? "," : "") + std::to_string(c[i]);
    if (c.size() > 12) s += ",..(" + std::to_string(c.size()) + ")";
    return s + "]";
}

Json gen_l0(sim::Rng& rng, int tier)
{
    Json p = Json::object();
    bool req = rng.chance(0.55);
    size_t max_size = rng.chance(0.7) ? 4096 : static_cast<size_t>(200 + rng.below(2000));
    msggen::Msg m = req ? msggen::gen_request(rng, std::min<size_t>(max_size, tier ? 1500 : 1000)) : msggen::gen_response(rng, std::min<size_t>(max_size, tier ? 1500 : 1000));
    if (rng.chance(0.35)) msggen::mutate(rng, m);
    if (rng.chance(0.05)) msggen::mutate(rng, m);
    p["side"] = req ? "request" : "response";
    p["desc"] = m.desc;
    p["max_size"] = static_cast<long>(max_size);
    p["msg"] = m.bytes;
    Json multi = Json::array();
    int k = tier ? 24 : 10;
    for (int i = 0; i < k; ++i) {
        Json c = Json::array();
        for (size_t x : msggen::gen_cuts(rng, m.bytes, 8)) c.push(static_cast<long>(x));
        multi.push(c);
    }
    p["multi"] = multi;
    Json s = Json::object(); // no threads: the schedule is irrelevant
    s["seed"] = 1;
    s["policy"] = "random";
    p["sched"] = s;
    return p;
}

template <typename Parser, typename SnapFn>
void check_l0(const Json& plan, const std::string& side, SnapFn snap)
{
    sim::Recorder& r = sim::rec();
    const std::string msg = plan.str("msg");
    // C01 quantifies over messages up to the configured size limit (beyond it, C14 applies)
    const size_t max_size = std::max(msg.size(), static_cast<size_t>(std::max<i64>(16, plan.num("max_size", 4096))));
    std::string kind = plan.str("desc", "?");
    // the signature's cause tag is the body framing (first word of desc) plus whether the message was mutated
    std::string tag = kind.substr(0, kind.find('+')) + (kind.find('+') != std::string::npos ? "+mutated" : "");
    u64 feeds = 0;
    Outcome base = deliver<Parser>(msg, {}, max_size, snap, &feeds);
    r.probe(side + (base.kind == Outcome::Done ? "-complete" : base.kind == Outcome::Error ? "-error" : "-incomplete"));
    r.probe("framing-" + tag);
    // Length of the message proper. A generated message ends with its last byte; a mutated one may carry bytes after
    // the end of the message (which belong to whatever follows): its length is the shortest prefix that is complete.
    const bool mutated = kind.find('+') != std::string::npos;
    size_t msg_len = msg.size();
    // (a message whose only "mutation" is a trailer section after the last chunk is a complete, legal message as it stands:
    // its last byte is the last byte of the string)
    const bool legal_as_is = mutated && kind.substr(kind.find('+')) == "+trailer";
    if (legal_as_is) r.probe("chunked-with-trailer-section");
    if (base.kind == Outcome::Done && mutated && !legal_as_is) {
        size_t lo = 1, hi = msg.size();
        while (lo < hi) {
            size_t mid = (lo + hi) / 2;
            Outcome o = deliver<Parser>(msg.substr(0, mid), {}, max_size, snap, nullptr);
            if (o.kind == Outcome::Done) hi = mid;
            else lo = mid + 1;
        }
        msg_len = lo;
        if (msg_len < msg.size()) r.probe("trailing-bytes-after-message");
    }
    auto judge = [&](const std::vector<size_t>& cuts, const char* how) {
        Outcome o = deliver<Parser>(msg, cuts, max_size, snap, &feeds);
        std::string where = side + " of " + std::to_string(msg.size()) + " bytes (" + kind + "), " + how + " " + cuts_str(cuts) + ": whole-at-once gives " + base.str() + ", this delivery gives " + o.str();
        if (base.kind == Outcome::Done) {
            // the segment that delivers the message's last byte
            size_t want = 0;
            for (size_t i = 0; i < cuts.size(); ++i)
                if (cuts[i] < msg_len) want = i + 1;
            if (o.kind == Outcome::Done && o.at < want) r.violation("C01.complete:before-last-byte:" + side + ":" + tag, where + " (the message is " + std::to_string(msg_len) + " bytes long)");
            else if (o.kind == Outcome::Again || (o.kind == Outcome::Done && o.at > want)) r.violation("C01.complete:not-at-last-byte:" + side + ":" + tag, where + " (the message is " + std::to_string(msg_len) + " bytes long)");
            else if (o.kind == Outcome::Error) r.violation("C01.error:only-under-segmentation:" + side + ":" + tag, where);
            else if (o.snap != base.snap) r.violation("C01.message:differs:" + side + ":" + tag, where + "\n  whole:     " + base.snap.substr(0, 600) + "\n  segmented: " + o.snap.substr(0, 600));
        } else if (base.kind == Outcome::Error) {
            if (o.kind != Outcome::Error) r.violation("C01.error:missing-under-segmentation:" + side + ":" + tag, where);
            else if (o.code != base.code) r.violation("C01.error:status-differs:" + side + ":" + tag, where);
        } else {
            if (o.kind == Outcome::Error) r.violation("C01.error:only-under-segmentation:" + side + ":" + tag, where);
            else if (o.kind == Outcome::Done) r.violation("C01.complete:only-under-segmentation:" + side + ":" + tag, where);
        }
    };
    // every single cut, exhaustively
    for (size_t c = 1; c < msg.size(); ++c) judge({ c }, "single cut");
    // byte by byte
    {
        std::vector<size_t> all;
        for (size_t c = 1; c < msg.size(); ++c) all.push_back(c);
        judge(all, "byte-by-byte");
    }
    const Json& multi = plan.get("multi");
    for (size_t i = 0; i < multi.size(); ++i) {
        std::vector<size_t> cuts;
        for (size_t k = 0; k < multi.at(i).size(); ++k) {
            i64 c = multi.at(i).at(k).as_int();
            if (c > 0 && c < static_cast<i64>(msg.size())) cuts.push_back(static_cast<size_t>(c));
        }
        std::sort(cuts.begin(), cuts.end());
        cuts.erase(std::unique(cuts.begin(), cuts.end()), cuts.end());
        if (!cuts.empty()) judge(cuts, "cuts");
    }
    r.stats["feeds"] = static_cast<i64>(feeds);
    r.stats["single_cuts_enumerated"] = static_cast<i64>(msg.size() > 0 ? msg.size() - 1 : 0);
    // every enumerated delivery is a fault (segmentation) that fired
    r.fault("segmentation", static_cast<i64>(msg.size() + multi.size()));
    if (msg.find("\r\n") != std::string::npos) r.probe("cut-inside-crlf");
    if (kind.find("chunked") == 0) r.probe("cut-inside-chunk-framing");
}

void run_l0(const Json& plan)
{
    if (plan.str("side", "request") == "response")
        check_l0<Http::ResponseParser>(plan, "response", [](Http::ResponseParser& p) { return msggen::snap_response(p.response); });
    else
        check_l0<Http::RequestParser>(plan, "request", [](Http::RequestParser& p) { return msggen::snap_request(p.request); });
}

// ---- L1 ------------------------------------------------------------------------------------------------
Json gen_l1(sim::Rng& rng, int tier)
{
    Json p = Json::object();
    p["workers"] = static_cast<int>(rng.range(1, 2));
    Json msgs = Json::array();
    int n = static_cast<int>(rng.range(1, tier ? 5 : 3));
    for (int i = 0; i < n; ++i) {
        msggen::Msg m = msggen::gen_request(rng, 3000);
        if (rng.chance(0.3)) msggen::mutate(rng, m);
        Json j = Json::object();
        j["msg"] = m.bytes;
        j["desc"] = m.desc;
        Json c = Json::array();
        for (size_t x : msggen::gen_cuts(rng, m.bytes, 10)) c.push(static_cast<long>(x));
        j["cuts"] = c;
        j["gap_us"] = static_cast<int>(800 + rng.below(3000));
        j["start_us"] = static_cast<int>(rng.below(3000));
        msgs.push(j);
    }
    p["messages"] = msgs;
    gen_sched(rng, p, 3000, false);
    return p;
}

void run_l1(const Json& plan)
{
    sim::Recorder& r = sim::rec();
    const int port = 9080;
    httpw::World w;
    httpw::Opts o;
    o.workers = std::max(1, std::min(3, static_cast<int>(plan.num("workers", 1))));
    o.max_req = 4096;
    o.port = port;
    // every generated request is answered by the echo route whatever its path: the answer is computed from the request alone
    w.start(o);
    const Json& msgs = plan.get("messages");
    struct Pair { std::shared_ptr<actors::Client> whole, cut; std::string desc; std::vector<size_t> cuts; size_t len; };
    std::vector<Pair> pairs;
    using actors::Step;
    int id = 0;
    for (size_t i = 0; i < msgs.size(); ++i) {
        const Json& m = msgs.at(i);
        std::string bytes = m.str("msg");
        if (bytes.empty()) continue;
        Pair pr;
        pr.desc = m.str("desc");
        pr.len = bytes.size();
        for (size_t k = 0; k < m.get("cuts").size(); ++k) {
            i64 c = m.get("cuts").at(k).as_int();
            if (c > 0 && c < static_cast<i64>(bytes.size())) pr.cuts.push_back(static_cast<size_t>(c));
        }
        std::sort(pr.cuts.begin(), pr.cuts.end());
        i64 gap = std::max<i64>(500, m.num("gap_us", 1000)) * 1000;
        i64 start = m.num("start_us", 0) * 1000;
        for (int v = 0; v < 2; ++v) {
            std::vector<Step> st { httpw::step(Step::Connect), v == 0 ? httpw::send_step(bytes) : httpw::send_step(bytes, pr.cuts, gap),
                                   httpw::step(Step::Await, 300 * 1000000LL, 1), httpw::step(Step::Close) };
            auto cl = std::make_shared<actors::Client>(id++, port, st);
            cl->custom_net = true;
            cl->to_server.mss = 65536; // the network itself does not re-segment what the client writes
            cl->to_server.jitter_ns = 0;
            cl->start(start + v * 137000);
            (v == 0 ? pr.whole : pr.cut) = cl;
        }
        pairs.push_back(pr);
    }
    const std::function<bool()> all_done = [&] {
        for (auto& p : pairs)
            if (!p.whole->finished() || !p.cut->finished()) return false;
        return true;
    };
    scen::wait_for(all_done, 60LL * 1000000000LL, "driver.wait-clients");
    auto seen = [&](const std::shared_ptr<actors::Client>& cl) -> std::string {
        std::string s;
        for (auto& rq : w.requests)
            if (cl->sock && rq.conn_id == cl->sock->id()) s += rq.snap + "\n";
        return s;
    };
    for (auto& p : pairs) {
        std::string tag = p.desc.substr(0, p.desc.find('+')) + (p.desc.find('+') != std::string::npos ? "+mutated" : "");
        int sa = p.whole->responses() ? p.whole->reader.done[0].status : 0, sb = p.cut->responses() ? p.cut->reader.done[0].status : 0;
        std::string where = "request of " + std::to_string(p.len) + " bytes (" + p.desc + ") sent whole and cut at " + cuts_str(p.cuts);
        r.probe(sa == 200 ? "l1-served" : sa == 0 ? "l1-unanswered" : "l1-error-status");
        if (sa != sb) r.violation("C01.l1:status-differs:" + tag, where + ": answered " + std::to_string(sa) + " when whole and " + std::to_string(sb) + " when cut");
        std::string ha = seen(p.whole), hb = seen(p.cut);
        if (ha != hb) r.violation("C01.l1:handler-saw-different-request:" + tag, where + ":\n  whole: " + ha.substr(0, 500) + "\n  cut:   " + hb.substr(0, 500));
        if (sa == 200 && sb == 200 && p.whole->reader.done[0].body != p.cut->reader.done[0].body)
            r.violation("C01.l1:answer-differs:" + tag, where + ": the two answers differ");
        if (!p.cuts.empty()) r.fault("segmentation", static_cast<i64>(p.cuts.size()));
    }
    for (auto& p : pairs) {
        if (p.whole->sock && !p.whole->st.closed_by_us) p.whole->sock->close();
        if (p.cut->sock && !p.cut->st.closed_by_us) p.cut->sock->close();
    }
    w.stop();
}

Scenario sc0 { "c01_l0", "C01", "request/response parsers fed every single cut, byte-by-byte and drawn multi-cut segmentations vs whole-at-once", gen_l0, run_l0 };
Registrar reg0(&sc0);
Scenario sc1 { "c01_l1", "C01", "generated requests sent whole and cut through simulated sockets to a real endpoint", gen_l1, run_l1 };
Registrar reg1(&sc1);

} // namespace
