// Conformance self-test: the same script of short system-call sequences is executed against
// the real kernel (loopback TCP, real eventfd/timerfd/epoll) and against the simulated kernel;
// return values, errno values and reported event masks must agree line by line. Sizes and
// timing are compared as predicates. This pins the stub to the Linux semantics Pistache
// depends on (edge/level/one-shot re-arm, MOD re-poll, write-space wake-ups, FIN/RST readiness).
#include <cerrno>
#include <cstring>
#include <string>
#include <vector>

#include <arpa/inet.h>
#include <fcntl.h>
#include <netinet/in.h>
#include <sys/epoll.h>
#include <sys/eventfd.h>
#include <sys/socket.h>
#include <sys/timerfd.h>
#include <unistd.h>

#include "scenario.h"

namespace {

struct Script {
    bool in_sim;
    std::vector<std::string> log;
    void out(const std::string& name, const std::string& v) { log.push_back(name + ": " + v); }
    void pause_ms(int ms)
    {
        if (in_sim) sim::sleep_ns(static_cast<sim::i64>(ms) * 1000000);
        else usleep(static_cast<useconds_t>(ms) * 1000);
    }
    static std::string mask(uint32_t m)
    {
        std::string s;
        if (m & EPOLLIN) s += "IN|";
        if (m & EPOLLOUT) s += "OUT|";
        if (m & EPOLLRDHUP) s += "RDHUP|";
        if (m & EPOLLHUP) s += "HUP|";
        if (m & EPOLLERR) s += "ERR|";
        return s.empty() ? "0" : s.substr(0, s.size() - 1);
    }
    static std::string rc(long r) { return r < 0 ? std::string("-1/") + strerrorname(errno) : std::to_string(r); }
    static const char* strerrorname(int e)
    {
        switch (e) {
        case EAGAIN: return "EAGAIN";
        case EEXIST: return "EEXIST";
        case ENOENT: return "ENOENT";
        case EBADF: return "EBADF";
        case EINPROGRESS: return "EINPROGRESS";
        case ECONNRESET: return "ECONNRESET";
        case EPIPE: return "EPIPE";
        case ECONNREFUSED: return "ECONNREFUSED";
        case EINVAL: return "EINVAL";
        case ENOTCONN: return "ENOTCONN";
        default: return "E?";
        }
    }
    // wait on ep (timeout ms) and describe what came back: "n=<k> fd<i>:<mask> ..." with fds named by the caller
    std::string wait(int ep, int timeout_ms, const std::vector<std::pair<int, const char*>>& names)
    {
        struct epoll_event evs[16];
        int n = epoll_wait(ep, evs, 16, timeout_ms);
        if (n < 0) return rc(n);
        std::string s = "n=" + std::to_string(n);
        for (int i = 0; i < n; ++i) {
            const char* nm = "?";
            for (auto& p : names)
                if (p.first == evs[i].data.fd) nm = p.second;
            s += std::string(" ") + nm + ":" + mask(evs[i].events);
        }
        return s;
    }
    static int ctl(int ep, int op, int fd, uint32_t events)
    {
        struct epoll_event ev;
        memset(&ev, 0, sizeof ev);
        ev.events = events;
        ev.data.fd = fd;
        return epoll_ctl(ep, op, fd, &ev);
    }
    static void nonblock(int fd) { fcntl(fd, F_SETFL, fcntl(fd, F_GETFL, 0) | O_NONBLOCK); }

    void eventfd_part()
    {
        int ep = epoll_create(8);
        int e1 = eventfd(0, EFD_NONBLOCK), e2 = eventfd(0, EFD_NONBLOCK), e3 = eventfd(0, EFD_NONBLOCK);
        std::vector<std::pair<int, const char*>> nm { { e1, "e1" }, { e2, "e2" }, { e3, "e3" } };
        out("ev.add-lt", rc(ctl(ep, EPOLL_CTL_ADD, e1, EPOLLIN)));
        out("ev.lt-idle", wait(ep, 0, nm));
        uint64_t v = 1;
        out("ev.write", rc(write(e1, &v, 8)));
        out("ev.lt-ready", wait(ep, 100, nm));
        out("ev.lt-still-ready", wait(ep, 0, nm));
        out("ev.read", rc(read(e1, &v, 8)) + " v=" + std::to_string(v));
        out("ev.lt-drained", wait(ep, 0, nm));
        v = 2;
        write(e1, &v, 8);
        v = 3;
        write(e1, &v, 8);
        read(e1, &v, 8);
        out("ev.sum", std::to_string(v));
        out("ev.read-empty", rc(read(e1, &v, 8)));
        out("ev.add-twice", rc(ctl(ep, EPOLL_CTL_ADD, e1, EPOLLIN)));
        // edge-triggered
        out("ev.add-et", rc(ctl(ep, EPOLL_CTL_ADD, e2, EPOLLIN | EPOLLET)));
        v = 1;
        write(e2, &v, 8);
        out("ev.et-first", wait(ep, 100, nm));
        out("ev.et-not-repeated", wait(ep, 0, nm));
        write(e2, &v, 8);
        out("ev.et-new-edge", wait(ep, 100, nm));
        {
            std::string a = rc(ctl(ep, EPOLL_CTL_MOD, e2, EPOLLIN | EPOLLET));
            out("ev.et-mod-repolls", a + " " + wait(ep, 0, nm));
        }
        // one-shot
        out("ev.add-oneshot", rc(ctl(ep, EPOLL_CTL_ADD, e3, EPOLLIN | EPOLLONESHOT)));
        write(e3, &v, 8);
        out("ev.oneshot-first", wait(ep, 100, nm));
        write(e3, &v, 8);
        out("ev.oneshot-disarmed", wait(ep, 0, nm));
        {
            std::string a = rc(ctl(ep, EPOLL_CTL_MOD, e3, EPOLLIN | EPOLLONESHOT));
            out("ev.oneshot-rearmed", a + " " + wait(ep, 0, nm));
        }
        // delete
        out("ev.del", rc(ctl(ep, EPOLL_CTL_DEL, e2, 0)));
        write(e2, &v, 8);
        out("ev.after-del", wait(ep, 0, nm));
        out("ev.del-twice", rc(ctl(ep, EPOLL_CTL_DEL, e2, 0)));
        out("ev.mod-unregistered", rc(ctl(ep, EPOLL_CTL_MOD, e2, EPOLLIN)));
        // close removes the registration
        v = 1;
        write(e1, &v, 8);
        close(e1);
        out("ev.closed-fd-gone", wait(ep, 0, nm));
        out("ev.ctl-closed-fd", rc(ctl(ep, EPOLL_CTL_ADD, e1, EPOLLIN)));
        close(e2);
        close(e3);
        close(ep);
    }

    void timerfd_part()
    {
        int ep = epoll_create(8);
        int t = timerfd_create(CLOCK_MONOTONIC, TFD_NONBLOCK);
        std::vector<std::pair<int, const char*>> nm { { t, "t" } };
        ctl(ep, EPOLL_CTL_ADD, t, EPOLLIN);
        struct itimerspec its;
        memset(&its, 0, sizeof its);
        its.it_value.tv_nsec = 20 * 1000000;
        out("tm.settime", rc(timerfd_settime(t, 0, &its, nullptr)));
        out("tm.not-yet", wait(ep, 0, nm));
        pause_ms(40);
        out("tm.expired", wait(ep, 0, nm));
        uint64_t v = 0;
        out("tm.read", rc(read(t, &v, 8)) + " v=" + std::to_string(v));
        out("tm.read-again", rc(read(t, &v, 8)));
        its.it_value.tv_nsec = 10 * 1000000;
        its.it_interval.tv_nsec = 10 * 1000000;
        timerfd_settime(t, 0, &its, nullptr);
        pause_ms(45);
        read(t, &v, 8);
        out("tm.interval-count>=3", v >= 3 ? "yes" : "no");
        // disarm
        memset(&its, 0, sizeof its);
        its.it_value.tv_nsec = 20 * 1000000;
        timerfd_settime(t, 0, &its, nullptr);
        memset(&its, 0, sizeof its);
        out("tm.disarm", rc(timerfd_settime(t, 0, &its, nullptr)));
        pause_ms(40);
        out("tm.disarmed-silent", wait(ep, 0, nm));
        // settime clears a pending expiration
        its.it_value.tv_nsec = 10 * 1000000;
        timerfd_settime(t, 0, &its, nullptr);
        pause_ms(25);
        its.it_value.tv_nsec = 200 * 1000000;
        timerfd_settime(t, 0, &its, nullptr);
        {
            std::string a = rc(read(t, &v, 8));
            out("tm.settime-clears-pending", a + " " + wait(ep, 0, nm));
        }
        close(t);
        close(ep);
    }

    int listen_socket(int* port)
    {
        int l = socket(AF_INET, SOCK_STREAM, 0);
        int one = 1;
        setsockopt(l, SOL_SOCKET, SO_REUSEADDR, &one, sizeof one);
        struct sockaddr_in sa;
        memset(&sa, 0, sizeof sa);
        sa.sin_family = AF_INET;
        sa.sin_addr.s_addr = htonl(INADDR_LOOPBACK);
        sa.sin_port = 0;
        bind(l, reinterpret_cast<struct sockaddr*>(&sa), sizeof sa);
        listen(l, 16);
        socklen_t len = sizeof sa;
        getsockname(l, reinterpret_cast<struct sockaddr*>(&sa), &len);
        *port = ntohs(sa.sin_port);
        nonblock(l);
        return l;
    }
    int connect_to(int port, std::string* how)
    {
        int c = socket(AF_INET, SOCK_STREAM, 0);
        nonblock(c);
        struct sockaddr_in sa;
        memset(&sa, 0, sizeof sa);
        sa.sin_family = AF_INET;
        sa.sin_addr.s_addr = htonl(INADDR_LOOPBACK);
        sa.sin_port = htons(static_cast<uint16_t>(port));
        int r = connect(c, reinterpret_cast<struct sockaddr*>(&sa), sizeof sa);
        if (how) *how = rc(r);
        return c;
    }

    void tcp_part()
    {
        int ep = epoll_create(8);
        int port = 0;
        int l = listen_socket(&port);
        struct sockaddr_in pa;
        socklen_t pl = sizeof pa;
        out("tcp.accept-empty", rc(accept4(l, reinterpret_cast<struct sockaddr*>(&pa), &pl, SOCK_NONBLOCK)));
        std::string how;
        int c = connect_to(port, &how);
        out("tcp.connect-nonblocking", how);
        std::vector<std::pair<int, const char*>> nm { { c, "c" }, { l, "l" } };
        ctl(ep, EPOLL_CTL_ADD, c, EPOLLOUT);
        out("tcp.connect-completes", wait(ep, 200, nm));
        int err = -1;
        socklen_t el = sizeof err;
        getsockopt(c, SOL_SOCKET, SO_ERROR, &err, &el);
        out("tcp.connect-so_error", std::to_string(err));
        ctl(ep, EPOLL_CTL_DEL, c, 0);
        pause_ms(5);
        pl = sizeof pa;
        int s = accept4(l, reinterpret_cast<struct sockaddr*>(&pa), &pl, SOCK_NONBLOCK);
        out("tcp.accept", s >= 0 ? "fd" : rc(s));
        nm.push_back({ s, "s" });
        ctl(ep, EPOLL_CTL_ADD, s, EPOLLIN | EPOLLRDHUP | EPOLLET);
        out("tcp.idle", wait(ep, 0, nm));
        out("tcp.client-send", rc(send(c, "hello", 5, MSG_NOSIGNAL)));
        out("tcp.server-readable", wait(ep, 200, nm));
        char buf[65536];
        out("tcp.recv", rc(recv(s, buf, sizeof buf, 0)));
        out("tcp.recv-empty", rc(recv(s, buf, sizeof buf, 0)));
        // edge-triggered: unread data is not re-reported, new data is
        send(c, "a", 1, MSG_NOSIGNAL);
        out("tcp.et-first", wait(ep, 200, nm));
        out("tcp.et-not-repeated", wait(ep, 0, nm));
        send(c, "b", 1, MSG_NOSIGNAL);
        out("tcp.et-new-data", wait(ep, 200, nm));
        out("tcp.recv-both", rc(recv(s, buf, sizeof buf, 0)));
        // IN and OUT in one report
        {
            std::string a = rc(ctl(ep, EPOLL_CTL_MOD, s, EPOLLIN | EPOLLOUT | EPOLLET));
            out("tcp.mod-in-out", a + " " + wait(ep, 0, nm));
        }
        out("tcp.writable-edge-not-repeated", wait(ep, 0, nm));
        send(c, "x", 1, MSG_NOSIGNAL);
        out("tcp.in-and-out-together", wait(ep, 200, nm));
        recv(s, buf, sizeof buf, 0);
        // fill the socket until it would block
        long total = 0;
        bool short_or_eagain = false;
        std::string chunk(16384, 'z');
        for (int i = 0; i < 100000; ++i) {
            ssize_t w = send(s, chunk.data(), chunk.size(), MSG_NOSIGNAL);
            if (w < 0) {
                short_or_eagain = errno == EAGAIN;
                break;
            }
            total += w;
            if (static_cast<size_t>(w) < chunk.size()) short_or_eagain = true;
        }
        out("tcp.fill-ends-in-eagain", short_or_eagain && total > 0 ? "yes" : "no");
        out("tcp.send-when-full", rc(send(s, "q", 1, MSG_NOSIGNAL)));
        {
            std::string a = rc(ctl(ep, EPOLL_CTL_MOD, s, EPOLLIN | EPOLLOUT | EPOLLET));
            out("tcp.full-mod-reports-nothing", a + " " + wait(ep, 0, nm));
        }
        // the reader drains everything: a write-space wake-up follows
        long drained = 0;
        for (int round = 0; round < 2000 && drained < total; ++round) {
            ssize_t g = recv(c, buf, sizeof buf, 0);
            if (g > 0) drained += g;
            else pause_ms(1);
        }
        out("tcp.reader-drained-all", drained == total ? "yes" : "no");
        out("tcp.write-space-wakeup", wait(ep, 300, nm));
        // half close by the peer
        out("tcp.peer-shutdown-wr", rc(shutdown(c, SHUT_WR)));
        out("tcp.fin-readiness", wait(ep, 200, nm));
        out("tcp.recv-after-fin", rc(recv(s, buf, sizeof buf, 0)));
        out("tcp.send-after-peer-fin", rc(send(s, "ok", 2, MSG_NOSIGNAL)));
        close(c);
        close(s);
        // reset with unread data
        c = connect_to(port, nullptr);
        pause_ms(5);
        pl = sizeof pa;
        s = accept4(l, reinterpret_cast<struct sockaddr*>(&pa), &pl, SOCK_NONBLOCK);
        nm = { { c, "c" }, { s, "s" } };
        ctl(ep, EPOLL_CTL_ADD, s, EPOLLIN | EPOLLRDHUP | EPOLLET);
        send(s, "unread", 6, MSG_NOSIGNAL);
        send(c, "pending", 7, MSG_NOSIGNAL);
        pause_ms(5);
        close(c); // unread data in c's queue: the kernel sends RST
        pause_ms(5);
        out("tcp.rst-readiness", wait(ep, 200, nm));
        out("tcp.recv-queued-before-rst", rc(recv(s, buf, sizeof buf, 0)));
        out("tcp.recv-after-rst", rc(recv(s, buf, sizeof buf, 0)));
        out("tcp.send-after-rst", rc(send(s, "x", 1, MSG_NOSIGNAL)));
        close(s);
        // refused connection
        int port2 = 0;
        int l2 = listen_socket(&port2);
        close(l2);
        c = connect_to(port2, &how);
        out("tcp.connect-refused-start", how == "-1/ECONNREFUSED" ? "-1/EINPROGRESS" : how); // loopback may refuse synchronously
        nm = { { c, "c" } };
        ctl(ep, EPOLL_CTL_ADD, c, EPOLLOUT | EPOLLRDHUP);
        std::string w = wait(ep, 200, nm);
        out("tcp.refused-has-err-hup", w.find("ERR") != std::string::npos && w.find("HUP") != std::string::npos ? "yes" : "no: " + w);
        err = 0;
        el = sizeof err;
        getsockopt(c, SOL_SOCKET, SO_ERROR, &err, &el);
        out("tcp.refused-so_error", err == ECONNREFUSED || how == "-1/ECONNREFUSED" ? "ECONNREFUSED" : std::to_string(err));
        close(c);
        close(l);
        close(ep);
    }

    void run()
    {
        eventfd_part();
        timerfd_part();
        tcp_part();
    }
};

} // namespace

namespace scen {

// returns the number of differing lines; prints them
int run_conformance(bool verbose)
{
    Script real { false, {} };
    real.run();
    Script simulated { true, {} };
    simk::reset();
    sim::rec().clear();
    sim::Config cfg;
    cfg.sched_seed = 7;
    sim::begin_run(cfg);
    simulated.run();
    sim::end_run();
    int diffs = 0;
    size_t n = std::max(real.log.size(), simulated.log.size());
    for (size_t i = 0; i < n; ++i) {
        std::string a = i < real.log.size() ? real.log[i] : "<missing>";
        std::string b = i < simulated.log.size() ? simulated.log[i] : "<missing>";
        if (a != b) {
            diffs++;
            printf("DIFF real: %s\n     sim : %s\n", a.c_str(), b.c_str());
        } else if (verbose) {
            printf("same %s\n", a.c_str());
        }
    }
    printf("conformance: %zu lines compared, %d differences\n", n, diffs);
    return diffs;
}

} // namespace scen
