// C09 — multi-threaded serving is race-free and shuts down cleanly.
//
// Http::Endpoint with 1..4 workers and one Rest::Router shared by the per-worker handler
// clones; 2..8 client actors issue keep-alive requests with unique tags on several methods
// (including methods that have no route at all); shutdown() is issued at a drawn point
// (after the load, or at an instant in the middle of it), followed by destruction.
// In the ThreadSanitizer build any data-race report is a violation: the scheduler's baton is
// invisible to TSan, so a report depends only on Pistache's own synchronisation.
#include <pistache/endpoint.h>
#include <pistache/router.h>

#include <atomic>
#include <thread>

#include "actors.h"
#include "httpworld.h"
#include "scenario.h"

using namespace scen;
using namespace Pistache;
using sim::i64;
using sim::u64;

namespace {


Json gen(sim::Rng& rng, int tier)
{
    Json p = Json::object();
    p["workers"] = static_cast<int>(rng.range(1, 4));
    int nc = static_cast<int>(rng.range(2, tier ? 8 : 5));
    Json clients = Json::array();
    u64 tag = 100000 + rng.below(800000);
    for (int i = 0; i < nc; ++i) {
        Json c = Json::object();
        Json reqs = Json::array();
        int nr = static_cast<int>(rng.range(1, tier ? 6 : 4));
        for (int k = 0; k < nr; ++k) {
            Json q = Json::object();
            int m = static_cast<int>(rng.below(10));
            // mostly routed methods; sometimes a method without any route (touches an absent method table)
            const char* method = m < 4 ? "GET" : m < 6 ? "POST" : m == 6 ? "PUT" : m == 7 ? "DELETE" : m == 8 ? "PATCH" : "OPTIONS";
            q["method"] = method;
            int pk = static_cast<int>(rng.below(10));
            q["path"] = pk < 6 ? "echo" : pk < 8 ? "item" : pk == 8 ? "onlyget" : "nothing";
            q["tag"] = static_cast<long long>(++tag);
            q["body_len"] = (std::string(method) == "POST" || std::string(method) == "PUT") ? static_cast<int>(rng.below(200)) : 0;
            // now and then a body of several receive buffers, arriving in many segments while other workers are reading too
            if (q.num("body_len", 0) > 0 && rng.chance(0.12)) q["body_len"] = static_cast<int>(3000 + rng.below(9000));
            q["think_us"] = rng.chance(0.5) ? 0 : static_cast<int>(rng.below(3000));
            reqs.push(q);
        }
        c["requests"] = reqs;
        // some clients are already waiting in the accept queue when the acceptor and the workers start
        c["start_us"] = rng.chance(0.3) ? 0 : static_cast<int>(rng.below(3000));
        c["latency_us"] = static_cast<int>(5 + rng.below(300));
        clients.push(c);
    }
    // a crowd, now and then: 70..120 clients send their one request at about the same instant, so that a worker finds far
    // more connections readable in one poll, and far more responses queued at once, than any batch size somebody might
    // have picked - and nothing follows that would wake it up again for what it left behind
    const bool crowd = rng.chance(0.05);
    if (crowd) {
        p["workers"] = static_cast<int>(rng.range(1, 2));
        clients = Json::array();
        int n = static_cast<int>(70 + rng.below(51));
        for (int i = 0; i < n; ++i) {
            Json c = Json::object();
            Json reqs = Json::array();
            Json q = Json::object();
            bool post = rng.chance(0.3);
            q["method"] = post ? "POST" : "GET";
            q["path"] = "echo";
            q["tag"] = static_cast<long long>(++tag);
            q["body_len"] = post ? static_cast<int>(rng.below(100)) : 0;
            q["think_us"] = 0;
            reqs.push(q);
            c["requests"] = reqs;
            c["start_us"] = static_cast<int>(rng.below(400));
            c["latency_us"] = static_cast<int>(5 + rng.below(60));
            clients.push(c);
        }
        p["crowd"] = true;
    }
    p["clients"] = clients;
    // shutdown: after the whole load, or in the middle of it
    if (rng.chance(0.5) || crowd) p["shutdown_at_us"] = -1;
    else p["shutdown_at_us"] = static_cast<int>(rng.below(12000));
    p["late_client"] = rng.chance(0.5);
    // in part of the runs the application calls the blocking serve() on a thread of its own instead of serveThreaded()
    p["blocking_serve"] = rng.chance(0.3);
    // the kernel may fail an accept (a client that gave up while it waited in the backlog): the acceptor goes on
    if (rng.chance(0.3)) p["accept_fail_permille"] = static_cast<int>(50 + rng.below(400));
    // a connection that knocks at the very moment of the shutdown (the acceptor finds it and the shutdown notification in one poll)
    if (p.num("shutdown_at_us", -1) >= 0 && rng.chance(0.5)) p["knock_before_shutdown_us"] = static_cast<int>(rng.below(120));
    // shutdown() called from a request handler (on a worker thread) instead of from the application's main thread
    p["shutdown_from_handler"] = rng.chance(0.2);
    gen_sched(rng, p, 4000, true);
    return p;
}

struct Expect {
    int status;
    std::string body; // exact body for 200 answers
};

Expect expected_for(const std::string& method, const std::string& path, const std::string& tag, const std::string& body)
{
    // route table (see run()): GET/POST /echo/:tag ; PUT/DELETE /item/:tag ; GET /onlyget/:tag
    if (path == "echo" && (method == "GET" || method == "POST")) return { 200, method + " echo " + tag + " " + body };
    if (path == "item" && (method == "PUT" || method == "DELETE")) return { 200, method + " item " + tag + " " + body };
    if (path == "onlyget" && method == "GET") return { 200, "GET onlyget " + tag + " " };
    if (path == "echo" || path == "item" || path == "onlyget") return { 405, "" };
    return { 404, "" };
}

void run(const Json& plan)
{
    sim::Recorder& r = sim::rec();
    const int port = 9080;
    int workers = std::max(1, std::min(4, static_cast<int>(plan.num("workers", 1))));
    std::string phase = "serving";
    sim::set_fatal_classifier([&](const std::string& verdict) -> std::pair<std::string, std::string> {
        if (phase == "shutdown") return { "C09.shutdown:does-not-terminate", "after shutdown() the endpoint's threads did not all terminate (" + verdict + ")" };
        return { "", "" };
    });

    auto router = std::make_shared<Rest::Router>();
    // the application's own knowledge that the server is up: a handler has run (real synchronisation, visible to ThreadSanitizer)
    static std::atomic<int> served;
    served.store(0);
    auto reply = [](const char* name) {
        return [name](const Rest::Request& req, Http::ResponseWriter resp) {
            served.fetch_add(1, std::memory_order_release);
            std::ostringstream m;
            m << req.method();
            resp.send(Http::Code::Ok, m.str() + " " + name + " " + req.param(":tag").as<std::string>() + " " + req.body());
            return Rest::Route::Result::Ok;
        };
    };
    Rest::Routes::Get(*router, "/echo/:tag", reply("echo"));
    Rest::Routes::Post(*router, "/echo/:tag", reply("echo"));
    Rest::Routes::Put(*router, "/item/:tag", reply("item"));
    Rest::Routes::Delete(*router, "/item/:tag", reply("item"));
    Rest::Routes::Get(*router, "/onlyget/:tag", reply("onlyget"));
    // GET /shutdown/:tag shuts the endpoint down from inside the handler
    static std::atomic<int> handler_shutdown_done;
    handler_shutdown_done.store(0);
    static Http::Endpoint* shutdown_target;
    static std::string handler_shutdown_error;
    handler_shutdown_error.clear();
    Rest::Routes::Get(*router, "/shutdown/:tag", [](const Rest::Request&, Http::ResponseWriter resp) {
        try {
            shutdown_target->shutdown();
        } catch (const std::exception& e) {
            sim::IgnoreScope ig;
            handler_shutdown_error = e.what();
        }
        handler_shutdown_done.store(1, std::memory_order_release);
        resp.send(Http::Code::Ok, "bye");
        return Rest::Route::Result::Ok;
    });

    auto ep = std::make_unique<Http::Endpoint>(Address("127.0.0.1", Port(port)));
    ep->init(Http::Endpoint::options().threads(workers).maxRequestSize(32768));
    ep->setHandler(router->handler());
    shutdown_target = ep.get();
    simk::faults().accept_fail_p = static_cast<double>(std::max<i64>(0, std::min<i64>(900, plan.num("accept_fail_permille", 0)))) / 1000.0;
    const bool blocking = plan.flag("blocking_serve");
    std::thread server;
    bool serve_returned = false;
    if (blocking) {
        r.probe("blocking-serve");
        Http::Endpoint* e = ep.get();
        server = std::thread([e, &serve_returned] {
            sim::set_self_name("app-serve");
            e->serve();
            sim::IgnoreScope ig;
            serve_returned = true;
        });
        // shutdown() is only meaningful once serve() is running: an application that calls it while serve() is still binding and
        // setting up has a race of its own (the threaded variant binds its wake-up descriptor before it starts the thread). The
        // application here does what a real one can do: it waits until one of its handlers has run, which orders everything
        // serve() did before it started the workers before the application's call of shutdown().
        std::vector<std::shared_ptr<actors::Client>> probes;
        for (int i = 0; i < 3000 && served.load(std::memory_order_acquire) == 0; ++i) {
            // (a connection attempt before serve() has bound the listening socket is refused; try again)
            if (i % 5 == 0 && i < 500) {
                std::vector<actors::Step> ps { httpw::step(actors::Step::Connect), httpw::send_step(actors::http_request("GET", "/echo/1", { { "Host", "sim" } }, "")),
                                                httpw::step(actors::Step::Await, 1000 * 1000000LL, 1), httpw::step(actors::Step::Close) };
                probes.push_back(std::make_shared<actors::Client>(900 + i, port, ps));
                probes.back()->start(0);
            }
            sim::sleep_ns(i < 500 ? 100 * 1000 : 1000 * 1000);
        }
        if (served.load(std::memory_order_acquire) == 0) r.violation("C09.serve:not-serving", "2.5 s after serve() was called on its own thread no request had been served");
    } else
        ep->serveThreaded();

    if (plan.flag("crowd")) r.probe("crowd");
    const Json& jc = plan.get("clients");
    std::vector<std::shared_ptr<actors::Client>> clients;
    struct Sent { std::string method, path, tag, body; };
    std::vector<std::vector<Sent>> sent(jc.size());
    for (size_t i = 0; i < jc.size(); ++i) {
        const Json& c = jc.at(i);
        std::vector<actors::Step> steps;
        steps.push_back(httpw::step(actors::Step::Connect));
        const Json& reqs = c.get("requests");
        for (size_t k = 0; k < reqs.size(); ++k) {
            const Json& q = reqs.at(k);
            Sent s;
            s.method = q.str("method", "GET");
            s.path = q.str("path", "echo");
            s.tag = std::to_string(q.num("tag"));
            s.body = actors::pattern(static_cast<u64>(q.num("tag")), static_cast<size_t>(std::max<i64>(0, q.num("body_len", 0))));
            sent[i].push_back(s);
            if (s.body.size() > 4096) r.probe("request-larger-than-a-receive-buffer");
            if (q.num("think_us", 0) > 0) steps.push_back(httpw::step(actors::Step::Pause, q.num("think_us") * 1000));
            steps.push_back(httpw::send_step(actors::http_request(s.method, "/" + s.path + "/" + s.tag, { { "Host", "sim" }, { "Connection", "keep-alive" } }, s.body)));
            // (no clause of C09 bounds the latency; a crowd under injected thread stalls - about one per 300 decision points, up to
            // 45 ms each - legitimately takes seconds of simulated time, so its clients are patient)
            steps.push_back(httpw::step(actors::Step::Await, (plan.flag("crowd") ? 120000LL : 2000LL) * 1000000LL, static_cast<int>(k + 1)));
        }
        steps.push_back(httpw::step(actors::Step::Close));
        auto cl = std::make_shared<actors::Client>(static_cast<int>(i), port, steps);
        cl->custom_net = true;
        cl->to_server.latency_ns = cl->from_server.latency_ns = std::max<i64>(1, c.num("latency_us", 50)) * 1000;
        cl->start(c.num("start_us", 0) * 1000);
        clients.push_back(cl);
    }

    i64 shutdown_at = plan.num("shutdown_at_us", -1);
    std::shared_ptr<actors::Client> knock;
    if (shutdown_at >= 0 && plan.has("knock_before_shutdown_us")) {
        std::vector<actors::Step> ks { httpw::step(actors::Step::Connect), httpw::send_step(actors::http_request("GET", "/echo/7", { { "Host", "sim" } }, "")),
                                        httpw::step(actors::Step::Await, 20 * 1000000LL, 1), httpw::step(actors::Step::Close) };
        knock = std::make_shared<actors::Client>(97, port, ks);
        knock->custom_net = true;
        knock->to_server.latency_ns = knock->from_server.latency_ns = 20 * 1000;
        knock->start(std::max<i64>(0, shutdown_at - 20 - std::max<i64>(0, plan.num("knock_before_shutdown_us", 0))) * 1000);
    }
    const std::function<bool()> all_done = [&] {
        for (auto& c : clients)
            if (!c->finished()) return false;
        return true;
    };
    bool interrupted = false;
    if (shutdown_at < 0) {
        scen::wait_for(all_done, (plan.flag("crowd") ? 150LL : 30LL) * 1000000000LL, "driver.wait-clients");
        sim::sleep_ns(2 * 1000000);
    } else {
        sim::sleep_ns(shutdown_at * 1000);
        interrupted = !all_done();
        if (interrupted) r.probe("shutdown-with-load");
        bool open_conn = false, inflight = false;
        for (auto& c : clients) {
            if (c->st.connected && !c->finished()) open_conn = true;
            if (c->st.send_done.size() > c->responses()) inflight = true;
        }
        if (open_conn) r.probe("shutdown-with-connections-open");
        if (inflight) r.probe("shutdown-with-requests-in-flight");
    }
    if (!interrupted) r.probe("shutdown-idle");

    // ---- oracle 1: every request answered exactly once from that request alone
    for (size_t i = 0; i < clients.size(); ++i) {
        auto& cl = clients[i];
        if (cl->reader.broken) r.violation("C09.response:malformed", "client " + std::to_string(i) + " received bytes that are not an HTTP response: " + cl->reader.broken_why);
        size_t n = cl->responses();
        // (a connection that the kernel aborted before the acceptor got it - the injected accept failure - gets nothing)
        const bool aborted_at_accept = simk::faults().accept_fail_p > 0 && cl->st.reset && n == 0;
        if (aborted_at_accept) r.probe("aborted-at-accept");
        if (!interrupted && cl->st.connected && !aborted_at_accept && n != sent[i].size())
            r.violation("C09.response:count", "client " + std::to_string(i) + " sent " + std::to_string(sent[i].size()) + " requests and received " + std::to_string(n) + " responses");
        if (n > cl->st.send_done.size()) r.violation("C09.response:unsolicited", "client " + std::to_string(i) + " received more responses than it sent requests");
        for (size_t k = 0; k < n && k < sent[i].size(); ++k) {
            const auto& resp = cl->reader.done[k];
            Expect e = expected_for(sent[i][k].method, sent[i][k].path, sent[i][k].tag, sent[i][k].body);
            std::string what = "client " + std::to_string(i) + " request " + std::to_string(k) + " (" + sent[i][k].method + " /" + sent[i][k].path + "/" + sent[i][k].tag + ")";
            if (resp.status != e.status)
                r.violation("C09.response:wrong-status", what + " answered " + std::to_string(resp.status) + " instead of " + std::to_string(e.status));
            else if (e.status == 200 && resp.body != e.body)
                r.violation("C09.response:not-computed-from-its-request", what + " answered with body '" + resp.body.substr(0, 80) + "' instead of '" + e.body.substr(0, 80) + "'");
            if (e.status == 405) r.probe("method-not-allowed");
            if (e.status == 404) r.probe("not-found");
        }
    }
    for (size_t i = 0; i < sent.size(); ++i)
        for (auto& s : sent[i])
            if (s.method == "PATCH" || s.method == "OPTIONS") r.probe("method-without-route-table");

    // ---- oracle 3: shutdown returns, threads terminate, destruction does not deadlock
    phase = "shutdown";
    int before = sim::live_thread_count();
    if (plan.flag("shutdown_from_handler") && !blocking) {
        // a client asks the server to shut itself down; the handler calls shutdown() on its worker thread
        r.probe("shutdown-from-handler");
        simk::faults().accept_fail_p = 0;
        std::vector<actors::Step> ss { httpw::step(actors::Step::Connect), httpw::send_step(actors::http_request("GET", "/shutdown/1", { { "Host", "sim" } }, "")),
                                        httpw::step(actors::Step::Await, 200 * 1000000LL, 1), httpw::step(actors::Step::Close) };
        auto sc = std::make_shared<actors::Client>(96, port, ss);
        sc->start(0);
        for (int i = 0; i < 3000 && handler_shutdown_done.load(std::memory_order_acquire) == 0; ++i) sim::sleep_ns(i < 500 ? 100 * 1000 : 1000 * 1000);
        if (handler_shutdown_done.load(std::memory_order_acquire) == 0) r.probe("shutdown-request-not-served");
        else if (!handler_shutdown_error.empty()) r.violation("C09.shutdown:raises-in-handler", "shutdown() called from a request handler raised: " + handler_shutdown_error);
    }
    ep->shutdown();
    if (blocking) {
        // shutdown() from another thread makes the blocking serve() return
        server.join();
        if (!serve_returned) r.violation("C09.shutdown:serve-did-not-return", "serve() did not return after shutdown()");
    }
    ep.reset();
    int after = sim::live_thread_count();
    phase = "after";
    r.stats["threads_before_shutdown"] = before;
    if (after != 1) r.violation("C09.shutdown:threads-left", std::to_string(after - 1) + " framework thread(s) still alive after the endpoint was destroyed");
    if (plan.flag("late_client")) {
        // the acceptor is gone: a new connection must not be served
        std::vector<actors::Step> steps { httpw::step(actors::Step::Connect), httpw::send_step(actors::http_request("GET", "/echo/1", {}, "")),
                                          httpw::step(actors::Step::Await, 50 * 1000000LL, 1) };
        auto late = std::make_shared<actors::Client>(99, port, steps);
        late->start(0);
        const std::function<bool()> done = [&] { return late->finished(); };
        scen::wait_for(done, 1000000000LL, "driver.late-client");
        if (late->responses() > 0) r.violation("C09.shutdown:served-after-shutdown", "a connection made after the endpoint was shut down and destroyed was served");
        r.probe("late-client");
    }
    for (auto& cl : clients)
        if (cl->sock && !cl->st.closed_by_us) cl->sock->close();
    router.reset();
}

Scenario sc { "c09_serving", "C09", "multi-worker endpoint + shared router, keep-alive clients, shutdown at a drawn point", gen, run };
Registrar reg(&sc);

} // namespace
