// C15 — every client request is answered by exactly its own response.
//
// System under test: the real Http::Experimental::Client (1..2 reactor threads, 1..4
// connections per host) on the simulated kernel; 1..3 application threads issue 1..24
// requests with unique tags and optional time-outs. The peer is a scripted simulated server:
// per request it answers at once, after a delay, byte-dribbled, chunked, closes after the
// response, never answers, or answers only after the client's time-out.
// Oracles: every promise settled at most once; fulfilled only with the response carrying the
// request's own tag; a request that the server answered completely before its time-out is
// fulfilled (bounded liveness); a request left unanswered on an established connection is
// rejected by time-out + margin; never more established connections than configured; in the
// ThreadSanitizer build any data-race report is a violation.
#include <pistache/client.h>
#include <pistache/http.h>

#include <deque>
#include <mutex>
#include <thread>

#include <netinet/in.h>
#include <set>
#include <sys/socket.h>

#include "actors.h"
#include "msggen.h"
#include "scenario.h"

using namespace scen;
using namespace Pistache;
using sim::i64;
using sim::u64;

namespace {


Json gen(sim::Rng& rng, int tier)
{
    Json p = Json::object();
    p["client_threads"] = static_cast<int>(rng.range(1, 2));
    p["max_conn"] = static_cast<int>(rng.range(1, 4));
    int issuers = static_cast<int>(rng.range(1, 3));
    int total = static_cast<int>(rng.range(1, tier ? 24 : 12));
    Json ji = Json::array();
    for (int i = 0; i < issuers; ++i) ji.push(Json::array());
    u64 tag = 100000 + rng.below(800000);
    // swarm: in a quarter of the runs the server closes most connections after the response and nothing
    // times out, so that connections are torn down and re-established while requests are handed over
    bool closing_server = rng.chance(0.25);
    // in part of the runs the application talks to two hosts through the one client: the connection limit is per
    // host, and a connection that becomes free serves only the requests waiting for its own host
    bool two_hosts = rng.chance(0.3);
    for (int k = 0; k < total; ++k) {
        Json q = Json::object();
        q["tag"] = static_cast<long long>(++tag);
        int b = static_cast<int>(rng.below(20));
        std::string beh = b < 8 ? "immediate" : b < 11 ? "delayed" : b < 13 ? "dribble" : b < 15 ? "chunked" : b < 17 ? "close-after" : b < 18 ? "never" : "late";
        if (closing_server) beh = b < 12 ? "close-after" : b < 17 ? "immediate" : "delayed";
        q["behaviour"] = beh;
        long timeout = 0;
        if (beh == "never" || beh == "late") timeout = static_cast<long>(200 + rng.below(1500)); // these need a time-out to end
        else if (rng.chance(0.4)) timeout = static_cast<long>(1000 + rng.below(3000));
        q["timeout_ms"] = timeout;
        q["server_delay_us"] = beh == "delayed" ? static_cast<long>(rng.below(300000)) : beh == "late" ? static_cast<long>(50000 + rng.below(400000)) : 0L;
        q["piece"] = static_cast<int>(1 + rng.below(40));
        q["gap_us"] = static_cast<int>(20 + rng.below(3000));
        q["issue_delay_us"] = static_cast<int>(rng.below(rng.chance(0.5) ? 100 : 20000));
        q["body_len"] = static_cast<int>(rng.below(600));
        // now and then a response of several receive buffers (the client reads 4 KiB at a time)
        if ((beh == "immediate" || beh == "delayed" || beh == "close-after") && rng.chance(0.08)) q["body_len"] = static_cast<int>(4000 + rng.below(16000));
        if (two_hosts) q["host"] = static_cast<int>(rng.below(2));
        ji.a[rng.below(static_cast<u64>(issuers))].push(q);
    }
    p["issuers"] = ji;
    p["hosts"] = two_hosts ? 2 : 1;
    // the second host may be down (nothing listens on its port: every connection attempt is refused) while the first one
    // serves; descriptor numbers of the failed attempts are reused by the connections to the host that is up
    const bool host2_down = two_hosts && rng.chance(0.4);
    if (host2_down) p["host2_down"] = true;
    // some issuers work sequentially: the next request goes out the moment the previous one is settled - onto the
    // connection that has just become free (and that a closing server is about to take away)
    if (rng.chance(closing_server ? 0.7 : 0.3)) {
        Json ch = Json::array();
        for (int i = 0; i < issuers; ++i) ch.push(rng.chance(0.7));
        p["chained"] = ch;
    }
    p["latency_us"] = static_cast<int>(5 + rng.below(500));
    // the client's own writes of a request may come back short (legal for any send; the client then writes the rest)
    if (rng.chance(0.3)) p["short_write_permille"] = static_cast<int>(20 + rng.below(400));
    gen_sched(rng, p, 6000, true);
    // another part of the application keeps connections of its own to the same server and opens one whenever it
    // likes - in particular right after the client released a descriptor, which then gets the same number
    if (rng.chance(closing_server ? 0.6 : 0.2)) p["other_connections"] = static_cast<int>(rng.range(1, 4));
    // in part of the runs one or two kinds of decision point of the client's own code paths are "hot": a thread
    // that gets there is often descheduled for milliseconds (between queueing a request and notifying the
    // transport, between a claim and the use of the connection, ...)
    if (rng.chance(closing_server ? 0.6 : 0.3)) {
        static const char* kSites[] = { "sys.write", "sys.read", "sys.send", "sys.recv", "sys.socket", "sys.connect", "sys.close", "sys.epoll_ctl",
                                        "queue.push.exchange", "queue.push.link", "queue.pop.load", "promise.then.check", "promise.resolve.check",
                                        "mutex.lock", "mutex.unlock", "sys.timerfd_settime", "atomic", "sys.epoll_wait" };
        Json hs = Json::array();
        int n = static_cast<int>(rng.range(1, 2));
        for (int i = 0; i < n; ++i) hs.push(std::string(kSites[rng.below(sizeof kSites / sizeof kSites[0])]));
        p["sched"]["hot_sites"] = hs;
        p["sched"]["hot_pause_permille"] = static_cast<int>(100 + rng.below(500));
        p["sched"]["pause_max_us"] = static_cast<int>(500 + rng.below(20000));
        p["sched"]["max_pauses"] = static_cast<int>(4 + rng.below(30));
    }
    // mix "hand-over": a fast network, a server that closes behind most answers, and *application* threads that are
    // descheduled where a connection changes hands, for longer than a round trip: before they take a promise's lock to
    // attach the continuation that waits for connect() (the connection is then established first and the continuation
    // runs on the issuing thread), in the connection's own queue, around the claim - so that the tail of the previous
    // user's work overlaps with the start of the next user's. (A pause *inside* then() holds the promise's lock and
    // only delays the resolver; the pause has to come before the lock.)
    if ((closing_server && rng.chance(0.5)) || (host2_down && rng.chance(0.6))) {
        p["latency_us"] = static_cast<int>(2 + rng.below(20));
        static const char* kHand[] = { "queue.pop.load", "queue.pop.load", "queue.pop.load", "queue.push.exchange", "queue.push.link", "sys.connect", "atomic", "promise.then.push", "sys.write" };
        Json hs = Json::array();
        hs.push(std::string("mutex.lock"));
        hs.push(std::string(kHand[rng.below(sizeof kHand / sizeof kHand[0])]));
        p["sched"]["hot_sites"] = hs;
        p["sched"]["hot_thread_prefix"] = "issuer";
        p["sched"]["hot_pause_permille"] = static_cast<int>(200 + rng.below(600));
        p["sched"]["pause_max_us"] = static_cast<int>(100 + rng.below(1500));
        p["sched"]["max_pauses"] = static_cast<int>(6 + rng.below(40));
    }
    return p;
}

struct ReqState {
    u64 tag = 0;
    std::string behaviour;
    i64 timeout_ms = 0;
    i64 issued_at = -1;
    int fulfilled = 0, rejected = 0;
    int status = 0;
    std::string body, error;
    i64 settled_at = -1;
    // server side
    i64 srv_received_at = -1, srv_answered_at = -1;
    int srv_conn = -1;
};

struct Server {
    int port = 9080;
    int host_index = 0;
    int wrong_host = 0;
    std::map<u64, ReqState*> by_tag;
    std::map<u64, Json> cfg;
    struct Conn {
        std::shared_ptr<simk::ActorSock> sock;
        actors::HttpReader reader;
        size_t handled = 0;
        bool open = true;
        bool foreign = false;
        int id = 0;
        struct Out {
            ReqState* rs = nullptr;
            std::string data;
            i64 ready_at = 0;
            bool never = false, close_after = false;
            size_t piece = 0;
            i64 gap = 0;
        };
        std::deque<Out> out;
        bool sending = false, pump_scheduled = false;
    };
    std::vector<std::shared_ptr<Conn>> conns;
    std::set<int> foreign_fds;   // descriptors of the application's other connections (not the client's)
    int established = 0, max_established = 0, accepted = 0;
    int unknown_requests = 0;

    void start()
    {
        simk::ActorSock::listen(port, [this](std::shared_ptr<simk::ActorSock> s) { on_accept(std::move(s)); });
    }
    void on_accept(std::shared_ptr<simk::ActorSock> s)
    {
        auto c = std::make_shared<Conn>();
        c->sock = s;
        c->reader.requests = true;
        c->id = host_index * 10000 + accepted++;
        conns.push_back(c);
        c->foreign = foreign_fds.count(s->peer_fd()) > 0;
        if (!c->foreign) {
            established++;
            max_established = std::max(max_established, established);
        }
        std::weak_ptr<Conn> wc = c;
        s->set_callback([this, wc](uint32_t ev) {
            auto c2 = wc.lock();
            if (c2) on_event(c2, ev);
        });
    }
    void gone(const std::shared_ptr<Conn>& c)
    {
        if (!c->open) return;
        c->open = false;
        if (!c->foreign) established--;
        c->sock->close();
    }
    void on_event(const std::shared_ptr<Conn>& c, uint32_t ev)
    {
        if (ev & (simk::ActorSock::Readable | simk::ActorSock::PeerFin)) {
            char tmp[8192];
            for (;;) {
                size_t n = c->sock->recv(tmp, sizeof tmp);
                if (n == 0) break;
                c->reader.feed(tmp, n);
            }
            while (c->handled < c->reader.done.size()) handle(c, c->reader.done[c->handled++]);
            if (c->sock->peer_fin()) gone(c);
        }
        if (ev & simk::ActorSock::Reset) gone(c);
    }
    // Responses leave a connection in request order (HTTP/1.1 without pipelining of answers): an answer that is not
    // ready yet, or never comes, holds back the answers to later requests on that connection.
    void pump(const std::shared_ptr<Conn>& c)
    {
        if (!c->open || c->sending || c->out.empty()) return;
        Conn::Out& o = c->out.front();
        if (o.never) return;
        if (sim::now_ns() < o.ready_at) {
            if (!c->pump_scheduled) {
                c->pump_scheduled = true;
                sim::schedule_at(o.ready_at, [this, c] {
                    c->pump_scheduled = false;
                    pump(c);
                }, "server.ready");
            }
            return;
        }
        c->sending = true;
        send_piece(c, 0);
    }
    void send_piece(const std::shared_ptr<Conn>& c, size_t off)
    {
        if (!c->open) return;
        Conn::Out& o = c->out.front();
        size_t n = o.piece ? std::min(o.piece, o.data.size() - off) : o.data.size() - off;
        off += c->sock->send(o.data.data() + off, n); // (short when the send buffer is full: the rest follows)
        if (off < o.data.size()) {
            sim::schedule_in(std::max<i64>(o.gap, 50000), [this, c, off] { send_piece(c, off); }, "server.dribble");
            return;
        }
        if (o.rs) o.rs->srv_answered_at = sim::now_ns();
        bool close_after = o.close_after;
        c->out.pop_front();
        c->sending = false;
        if (close_after) gone(c);
        else pump(c);
    }
    void handle(const std::shared_ptr<Conn>& c, const actors::HttpMsg& req)
    {
        u64 tag = 0;
        size_t p = req.target.find("/r/");
        if (p != std::string::npos) tag = strtoull(req.target.c_str() + p + 3, nullptr, 10);
        auto it = by_tag.find(tag);
        if (it == by_tag.end()) {
            unknown_requests++;
            return;
        }
        ReqState* rs = it->second;
        const Json& q = cfg[tag];
        if (std::max<i64>(0, std::min<i64>(1, q.num("host", 0))) != host_index) wrong_host++;
        rs->srv_received_at = sim::now_ns();
        rs->srv_conn = c->id;
        std::string beh = q.str("behaviour", "immediate");
        std::string body = "tag=" + std::to_string(tag) + ";" + actors::pattern(tag, static_cast<size_t>(std::max<i64>(0, q.num("body_len", 0))));
        Conn::Out o;
        o.rs = rs;
        o.data = actors::http_response(200, { { "Connection", "keep-alive" } }, body);
        i64 delay = std::max<i64>(0, q.num("server_delay_us", 0)) * 1000;
        if (beh == "late") delay += rs->timeout_ms * 1000000LL; // after the client's time-out
        o.ready_at = sim::now_ns() + delay;
        o.never = beh == "never";
        o.close_after = beh == "close-after";
        if (beh == "raw") {
            // hostile server: the response bytes come from the plan
            o.data = q.str("raw");
            if (o.data.empty()) o.never = true;
        }
        if (beh == "chunked") {
            std::vector<std::string> chunks;
            size_t piece = static_cast<size_t>(std::max<i64>(1, q.num("piece", 10)));
            for (size_t off = 0; off < body.size(); off += piece) chunks.push_back(body.substr(off, piece));
            o.data = "HTTP/1.1 200 OK\r\nTransfer-Encoding: chunked\r\n\r\n" + actors::chunked(chunks);
        }
        if (beh == "dribble" || (beh == "chunked" && q.num("gap_us", 0) % 2) || (beh == "raw" && q.num("piece", 0) > 0)) {
            o.piece = static_cast<size_t>(std::max<i64>(1, q.num("piece", 10)));
            o.gap = std::max<i64>(1, q.num("gap_us", 100)) * 1000;
        }
        c->out.push_back(std::move(o));
        pump(c);
    }
};

void run(const Json& plan)
{
    sim::Recorder& r = sim::rec();
    Server srv;
    simk::faults().client_side.latency_ns = simk::faults().server_side.latency_ns = std::max<i64>(1, plan.num("latency_us", 50)) * 1000;
    simk::faults().short_write_p = static_cast<double>(std::max<i64>(0, std::min<i64>(900, plan.num("short_write_permille", 0)))) / 1000.0;
    const Json& ji = plan.get("issuers");
    std::deque<ReqState> reqs;
    std::vector<std::vector<ReqState*>> per_issuer(ji.size());
    for (size_t i = 0; i < ji.size(); ++i)
        for (size_t k = 0; k < ji.at(i).size(); ++k) {
            const Json& q = ji.at(i).at(k);
            u64 tag = static_cast<u64>(q.num("tag"));
            if (srv.by_tag.count(tag)) continue;
            reqs.emplace_back();
            ReqState& rs = reqs.back();
            rs.tag = tag;
            rs.behaviour = q.str("behaviour", "immediate");
            rs.timeout_ms = std::max<i64>(0, q.num("timeout_ms", 0));
            if ((rs.behaviour == "never" || rs.behaviour == "late") && rs.timeout_ms == 0) rs.timeout_ms = 500;
            srv.by_tag[tag] = &rs;
            srv.cfg[tag] = q;
            per_issuer[i].push_back(&rs);
        }
    srv.start();
    // a second host (another port of the loopback address): its own pool of connections and its own overflow queue
    const bool two_hosts = plan.num("hosts", 1) >= 2;
    Server srv2;
    srv2.port = srv.port + 1;
    srv2.host_index = 1;
    const bool host2_down = two_hosts && plan.flag("host2_down");
    if (two_hosts) {
        srv2.by_tag = srv.by_tag;
        srv2.cfg = srv.cfg;
        if (!host2_down) srv2.start();
        r.probe(host2_down ? "second-host-down" : "two-hosts");
    }
    auto port_of = [&](u64 tag) { return two_hosts && srv.cfg[tag].num("host", 0) >= 1 ? srv2.port : srv.port; };
    auto all_conns = [&] {
        std::vector<std::shared_ptr<Server::Conn>> v = srv.conns;
        v.insert(v.end(), srv2.conns.begin(), srv2.conns.end());
        return v;
    };

    const int max_conn = std::max(1, std::min(8, static_cast<int>(plan.num("max_conn", 1))));
    Http::Experimental::Client client;
    client.init(Http::Experimental::Client::options().threads(std::max(1, std::min(3, static_cast<int>(plan.num("client_threads", 1))))).maxConnectionsPerHost(max_conn));

    // The application's other connections: a thread that opens a connection to the same server as soon as a
    // descriptor of a connected socket has been released somewhere in the process, and keeps it. It never writes.
    struct Other {
        int budget = 0, pending = 0;
        bool stop = false;
        std::vector<int> fds;
        std::set<int> ordinals; // creation ordinals of its sockets (see simk::sock_stats)
    } other;
    other.budget = std::max(0, std::min(8, static_cast<int>(plan.num("other_connections", 0))));
    std::thread other_thread;
    if (other.budget > 0) {
        simk::set_stream_close_observer([&other](int) {
            if (other.budget > 0) {
                other.budget--;
                other.pending++;
            }
        });
        other_thread = std::thread([&] {
            sim::set_self_name("app-other");
            const std::function<bool()> wake = [&other] { return other.pending > 0 || other.stop; };
            for (;;) {
                {
                    sim::IgnoreScope ig;
                    sim::block_until(wake, -1, "app.other-connection");
                }
                bool stop;
                {
                    sim::IgnoreScope ig;
                    stop = other.stop && other.pending == 0;
                    if (!stop) other.pending--;
                }
                if (stop) break;
                int fd = ::socket(AF_INET, SOCK_STREAM, 0);
                if (fd < 0) continue;
                {
                    sim::IgnoreScope ig;
                    srv.foreign_fds.insert(fd);
                    other.fds.push_back(fd);
                    r.probe("other-connection-opened");
                }
                struct sockaddr_in a;
                memset(&a, 0, sizeof a);
                a.sin_family = AF_INET;
                a.sin_port = htons(static_cast<uint16_t>(srv.port));
                a.sin_addr.s_addr = htonl(INADDR_LOOPBACK);
                ::connect(fd, reinterpret_cast<struct sockaddr*>(&a), sizeof a);
                {
                    sim::IgnoreScope ig;
                    const auto& ss = simk::sock_stats();
                    for (size_t i = ss.size(); i-- > 0;)
                        if (ss[i].fd == fd && !ss[i].closed) {
                            other.ordinals.insert(ss[i].ordinal);
                            break;
                        }
                }
            }
        });
    }

    std::mutex rec_mtx; // the promise continuations run on the client's reactor threads
    std::vector<std::thread> issuers;
    for (size_t i = 0; i < per_issuer.size(); ++i) {
        issuers.emplace_back([&, i] {
            sim::set_self_name(("issuer" + std::to_string(i)).c_str());
            const bool chained = plan.get("chained").at(i).as_int() != 0;
            ReqState* prev = nullptr;
            for (ReqState* rs : per_issuer[i]) {
                i64 d = srv.cfg[rs->tag].num("issue_delay_us", 0) * 1000;
                if (chained && prev) {
                    const ReqState* pv = prev;
                    const std::function<bool()> settled = [pv] { return pv->fulfilled + pv->rejected > 0; };
                    sim::IgnoreScope ig;
                    sim::block_until(settled, sim::now_ns() + 10LL * 1000000000LL, "issuer.wait-previous");
                } else if (d > 0)
                    sim::sleep_ns(d);
                prev = rs;
                auto rb = client.get("http://127.0.0.1:" + std::to_string(port_of(rs->tag)) + "/r/" + std::to_string(rs->tag));
                if (rs->timeout_ms > 0) rb.timeout(std::chrono::milliseconds(rs->timeout_ms));
                {
                    sim::IgnoreScope ig;
                    rs->issued_at = sim::now_ns();
                }
                try {
                    rb.send().then(
                        [rs, &rec_mtx](Http::Response resp) {
                            std::lock_guard<std::mutex> g(rec_mtx);
                            rs->fulfilled++;
                            rs->status = static_cast<int>(resp.code());
                            rs->body = resp.body();
                            rs->settled_at = sim::now_ns();
                        },
                        [rs, &rec_mtx](std::exception_ptr e) {
                            std::string what = "?";
                            try {
                                std::rethrow_exception(e);
                            } catch (const std::exception& ex) {
                                what = ex.what();
                            } catch (...) {
                            }
                            std::lock_guard<std::mutex> g(rec_mtx);
                            rs->rejected++;
                            rs->error = what;
                            rs->settled_at = sim::now_ns();
                        });
                } catch (const std::exception& e) {
                    std::lock_guard<std::mutex> g(rec_mtx);
                    rs->rejected++;
                    rs->error = std::string("send() threw: ") + e.what();
                    rs->settled_at = sim::now_ns();
                }
            }
        });
    }
    for (auto& t : issuers) t.join();
    // wait until everything that can settle has settled
    i64 longest = 0;
    for (auto& rs : reqs) longest = std::max<i64>(longest, rs.timeout_ms * 1000000LL + srv.cfg[rs.tag].num("server_delay_us", 0) * 1000);
    const std::function<bool()> all_settled = [&] {
        for (auto& rs : reqs)
            if (rs.fulfilled + rs.rejected == 0) return false;
        return true;
    };
    scen::wait_for(all_settled, longest * 3 + 20LL * 1000000000LL, "driver.wait-settled");
    sim::sleep_ns(longest + 600 * 1000000LL); // late answers arrive now

    // ---- oracle (harness state only; the client's threads are idle by now)
    {
    sim::IgnoreScope oracle_scope;
    const i64 margin = 300 * 1000000LL;
    // Root-cause attribution: a connection on which a request timed out is handed to the next request although the
    // answer to the timed-out one may still come (or the server is still busy with it). Everything that goes wrong on
    // such a connection afterwards carries the cause tag "after-time-out".
    // (A request counts only if ANOTHER request timed out on its connection before it got there; its own time-out
    // does not make it a consequence of anything.)
    auto after_timeout = [&](const ReqState& rs) {
        for (auto& o : reqs) {
            if (&o == &rs || !(o.rejected && o.error == "Timeout")) continue;
            if (rs.srv_conn >= 0) {
                if (o.srv_conn == rs.srv_conn && o.settled_at <= rs.srv_received_at) return true;
            } else if (rs.issued_at >= 0 && o.settled_at <= (rs.settled_at >= 0 ? rs.settled_at : sim::now_ns()))
                return true;
        }
        return false;
    };
    auto flag = [&](const ReqState& rs, const std::string& sig, const std::string& detail) {
        if (after_timeout(rs)) {
            r.violation("C15.after-time-out:" + sig.substr(4, sig.find(':') - 4), detail + " [on a connection that was reused after a request on it had timed out]");
        } else
            r.violation(sig, detail);
    };
    const bool hostile_mode = plan.flag("hostile_server");
    std::vector<const ReqState*> unsettled_unreceived;
    bool any_never = false;
    for (auto& rs : reqs)
        if (rs.behaviour == "never" || rs.behaviour == "raw") any_never = true;
    // a connection that ever carried a hostile response has no defined framing afterwards
    std::map<int, i64> hostile_on_conn;
    if (hostile_mode)
        for (auto& rs : reqs)
            if (rs.behaviour == "raw" && rs.srv_conn >= 0 && (!hostile_on_conn.count(rs.srv_conn) || rs.srv_received_at < hostile_on_conn[rs.srv_conn])) hostile_on_conn[rs.srv_conn] = rs.srv_received_at;
    for (auto& rs : reqs) {
        if (hostile_mode) {
            std::string who = "request tag " + std::to_string(rs.tag) + " (" + rs.behaviour + ")";
            r.probe(rs.behaviour == "raw" ? (rs.fulfilled ? "hostile-response-accepted" : rs.rejected ? "hostile-response-rejected" : "hostile-response-unsettled") : "well-formed-exchange");
            if (rs.fulfilled + rs.rejected > 1) r.violation("C03.client:settled-more-than-once", who + " was settled " + std::to_string(rs.fulfilled + rs.rejected) + " times");
            bool clean_conn = rs.srv_conn >= 0 && (!hostile_on_conn.count(rs.srv_conn) || hostile_on_conn[rs.srv_conn] > rs.srv_received_at) && !after_timeout(rs);
            if (rs.behaviour != "raw" && clean_conn && rs.srv_answered_at >= 0) {
                std::string want = "tag=" + std::to_string(rs.tag) + ";";
                if (!rs.fulfilled) r.violation("C03.client:well-formed-exchange-not-fulfilled", who + " was answered correctly on a connection without hostile history but its promise was " + (rs.rejected ? "rejected (" + rs.error + ")" : "never settled"));
                else if (rs.body.compare(0, want.size(), want) != 0) r.violation("C03.client:well-formed-exchange-wrong-body", who + " was fulfilled with another body");
            }
            continue;
        }
        std::string who = "request tag " + std::to_string(rs.tag) + " (" + rs.behaviour + (rs.timeout_ms ? ", time-out " + std::to_string(rs.timeout_ms) + " ms" : "") + ")";
        r.probe("behaviour-" + rs.behaviour);
        if (rs.fulfilled + rs.rejected > 1)
            flag(rs, "C15.settle:more-than-once", who + " was settled " + std::to_string(rs.fulfilled + rs.rejected) + " times (" + std::to_string(rs.fulfilled) + " fulfilled, " + std::to_string(rs.rejected) + " rejected)");
        if (rs.fulfilled) {
            std::string want = "tag=" + std::to_string(rs.tag) + ";";
            if (rs.body.compare(0, want.size(), want) != 0) {
                std::string other = rs.body.substr(0, rs.body.find(';'));
                std::string cause = "other";
                for (auto& o : reqs)
                    if (&o != &rs && rs.body.compare(0, 4 + std::to_string(o.tag).size() + 1, "tag=" + std::to_string(o.tag) + ";") == 0) cause = "answer-to-" + o.behaviour + "-request";
                flag(rs, "C15.own-response:fulfilled-with-another-response:" + cause, who + " was fulfilled with the response '" + other + "'");
            } else if (rs.body != want + actors::pattern(rs.tag, static_cast<size_t>(std::max<i64>(0, srv.cfg[rs.tag].num("body_len", 0)))))
                flag(rs, "C15.own-response:body-corrupted", who + " was fulfilled with a body of " + std::to_string(rs.body.size()) + " bytes that is not the one the server sent");
        }
        bool answered_in_time = rs.srv_answered_at >= 0 && (rs.timeout_ms == 0 || rs.srv_answered_at + margin < rs.srv_received_at + rs.timeout_ms * 1000000LL);
        if (answered_in_time && !rs.fulfilled) {
            flag(rs, "C15.liveness:answered-request-not-fulfilled:" + rs.behaviour, who + " was answered completely by the server " + std::to_string((rs.srv_answered_at - rs.srv_received_at) / 1000) + " us after it arrived, but its promise was " + (rs.rejected ? "rejected (" + rs.error + ")" : "never settled"));
        }
        if (rs.timeout_ms > 0 && rs.srv_received_at >= 0 && rs.srv_answered_at < 0) {
            // unanswered on an established connection: must be rejected by the time-out
            if (rs.fulfilled + rs.rejected == 0) flag(rs, "C15.timeout:unanswered-request-not-rejected:" + rs.behaviour, who + " reached the server, was never answered, and its promise was not rejected after the time-out");
            else if (rs.rejected && rs.settled_at > rs.srv_received_at + rs.timeout_ms * 1000000LL + margin + 500 * 1000000LL)
                flag(rs, "C15.timeout:rejected-late", who + " was rejected " + std::to_string((rs.settled_at - rs.srv_received_at) / 1000000) + " ms after it reached the server");
        }
        // a time-out runs from the moment the request is handed to the client at the earliest
        if (rs.rejected && rs.error == "Timeout" && rs.issued_at >= 0 && rs.settled_at < rs.issued_at + rs.timeout_ms * 1000000LL)
            flag(rs, "C15.timeout:rejected-before-the-time-out-expired", who + " was rejected as timed out " + std::to_string((rs.settled_at - rs.issued_at) / 1000) + " us after it was issued");
        if (rs.srv_received_at < 0 && rs.fulfilled) flag(rs, "C15.own-response:fulfilled-without-reaching-the-server", who + " was fulfilled although the server never saw it");
        if (rs.srv_received_at < 0) r.probe("request-never-sent");
        if (rs.srv_received_at < 0 && rs.fulfilled + rs.rejected == 0 && rs.issued_at >= 0) unsettled_unreceived.push_back(&rs);
    }
    // More requests than connections: a request waits in the client's overflow queue until a connection is free. When every
    // request of the run is answered (or closed on) by the server, every connection becomes free again, and a request that
    // the client has not even written by the end has been forgotten in the queue. (A request written to a connection that
    // the server was closing at that moment is lost on the way and, without a time-out, never settled either: the statement
    // does not cover that, so only requests that were never written count. All requests of a run have the same length.)
    if (!hostile_mode && !any_never && !unsettled_unreceived.empty()) {
        size_t len = 0, received = 0;
        for (auto& c : all_conns())
            for (auto& m : c->reader.done) {
                len = std::max(len, m.raw_len);
                received++;
            }
        u64 written = 0;
        for (auto& st : simk::sock_stats())
            if (!other.ordinals.count(st.ordinal)) written += st.bytes_accepted;
        if (len > 0 && written % len == 0) {
            size_t lost_on_the_way = static_cast<size_t>(written / len) - std::min<size_t>(received, static_cast<size_t>(written / len));
            // a request lost on the way is never settled and keeps its connection for ever; the queue behind it is stuck for that reason
            if (lost_on_the_way == 0) {
                const ReqState& rs = *unsettled_unreceived.back();
                flag(rs, "C15.liveness:queued-request-never-sent", std::to_string(unsettled_unreceived.size()) + " request(s), e.g. tag " + std::to_string(rs.tag) + " (" + rs.behaviour + "), were never written by the client and never settled although the server answered every request it received and the client's connections were idle at the end");
            }
        }
    }
    r.stats["max_established"] = srv.max_established;
    // The limit is on the connections the client has at one time: its sockets from socket() to close(). (What the server
    // sees established lags behind by the latency of a FIN when the client itself closes a connection and opens the next.)
    {
      for (int hport = srv.port; hport <= (two_hosts ? srv2.port : srv.port); ++hport) {
        std::vector<std::pair<i64, int>> ev;
        for (auto& st : simk::sock_stats()) {
            if (other.ordinals.count(st.ordinal) || st.port != hport) continue;
            ev.emplace_back(st.opened_at, +1);
            if (st.closed_at >= 0) ev.emplace_back(st.closed_at, -1);
        }
        std::sort(ev.begin(), ev.end(), [](const std::pair<i64, int>& a, const std::pair<i64, int>& b) { return a.first != b.first ? a.first < b.first : a.second < b.second; });
        int open_now = 0, max_open = 0;
        for (auto& e : ev) {
            open_now += e.second;
            max_open = std::max(max_open, open_now);
        }
        r.stats[hport == srv.port ? "max_client_sockets" : "max_client_sockets_host2"] = max_open;
        if (max_open >= max_conn && hport == srv2.port) r.probe("connection-limit-reached-on-second-host");
        if (max_open > max_conn)
        {
            std::string lst;
            for (auto& st : simk::sock_stats())
                if (!other.ordinals.count(st.ordinal) && st.port == hport) lst += " [fd " + std::to_string(st.fd) + " " + std::to_string(st.opened_at / 1000) + ".." + (st.closed_at >= 0 ? std::to_string(st.closed_at / 1000) : std::string("open")) + " us]";
            r.violation("C15.connections:more-than-configured", "the client had " + std::to_string(max_open) + " sockets to the host at port " + std::to_string(hport) + " open at once with a limit of " + std::to_string(max_conn) + " per host:" + lst);
        }
      }
    }
    if (srv.max_established >= max_conn && max_conn > 1) r.probe("connection-limit-reached");
    if (srv.accepted > max_conn || srv2.accepted > max_conn) r.probe("reconnected");
    for (auto& rs : reqs)
        if (rs.fulfilled && rs.body.size() > 4096) r.probe("response-larger-than-a-receive-buffer");
    for (auto& a : simk::anomalies())
        if (a.kind == "send.ebadf" || a.kind == "recv.ebadf") r.probe("syscall-on-closed-descriptor");
    if (srv.wrong_host + srv2.wrong_host) r.violation("C15.wire:request-sent-to-another-host", std::to_string(srv.wrong_host + srv2.wrong_host) + " request(s) arrived at a host other than the one they were addressed to");
    if (srv.unknown_requests + srv2.unknown_requests) r.violation("C15.wire:unexpected-request", std::to_string(srv.unknown_requests + srv2.unknown_requests) + " request(s) arrived at the server that the application never issued (or a request was mangled)");
    for (auto& c : all_conns())
        if (c->reader.broken) r.violation("C15.wire:malformed-request", "the client wrote bytes that are not an HTTP request: " + c->reader.broken_why);

    for (auto& c : all_conns())
        if (c->foreign && c->reader.done.size() + (c->reader.broken ? 1 : 0) > 0) r.probe("request-on-a-connection-that-is-not-the-clients");
    } // end of the oracle's ignore scope
    if (other_thread.joinable()) {
        {
            sim::IgnoreScope ig;
            other.stop = true;
            other.pending = 0;
            other.budget = 0;
        }
        other_thread.join();
        for (int fd : other.fds) ::close(fd);
    }
    // Client::shutdown() closes the pool's descriptors without waiting for the reactor threads; a thread still inside a
    // handler would use a closed descriptor (outside C15; see DESIGN 9). The application waits until the client is quiet.
    sim::quiesce(2LL * 1000000000LL);
    simk::set_stream_close_observer(nullptr);
    client.shutdown();
    simk::ActorSock::unlisten(srv.port);
    for (auto& c : srv.conns) srv.gone(c);
    if (two_hosts) {
        simk::ActorSock::unlisten(srv2.port);
        for (auto& c : srv2.conns) srv2.gone(c);
    }
}

// ---- hostile server (C03, response side) -----------------------------------------------------------------
// The scripted server answers some requests with mutated or hostile responses in drawn dribbling; the real client
// must neither crash nor hang nor corrupt memory, must settle each such request at most once, and must keep serving
// the well-formed exchanges that do not share a connection history with a hostile one.
const char* kHostileResponseHeaders[] = {
    "Content-Length: 99999999999999999999", "Content-Length: 2000000000", "Content-Length: -1", "Content-Length: ", "Content-Length: 12abc",
    "Transfer-Encoding: chunked", "Transfer-Encoding: gzip", "Set-Cookie: ====;;;;", "Set-Cookie: a", "Set-Cookie: =", "Set-Cookie: a=b; Max-Age=999999999999999999999",
    "Set-Cookie: a=b; Expires=garbage", "Set-Cookie: a=b; Path", "Set-Cookie: \x01=\xff; ;", "Content-Type: ", "Content-Type: a", "Content-Type: text/plain; charset",
    "Cache-Control: max-age=", "Cache-Control: max-age=999999999999999999999", "Cache-Control: ,,,,", "Location: ", "Server: \r", "Date: garbage",
    "Connection: ", "Allow: GET,,,", "Access-Control-Allow-Origin: ", ": value", "NoColonHere", "X: ",
};

std::string hostile_response(sim::Rng& rng, u64 tag)
{
    int k = static_cast<int>(rng.below(10));
    std::string body = "tag=" + std::to_string(tag) + ";";
    if (k < 4) {
        msggen::Msg m = msggen::gen_response(rng, 1200);
        int n = static_cast<int>(rng.range(1, 4));
        for (int i = 0; i < n; ++i) msggen::mutate(rng, m);
        return m.bytes;
    }
    if (k < 8) {
        static const char* lines[] = { "HTTP/1.1 200 OK", "HTTP/1.1  200 OK", "HTTP/1.1 ", "HTTP/1.1 99999999999999999999 X", "HTTP/1.1 abc OK", "HTTP/1.0 200 OK", "HTTP/2.0 200 OK", "HTTP/1.1 200", "HTTP/1.1\t200 OK" };
        std::string s = std::string(lines[rng.below(sizeof lines / sizeof lines[0])]) + "\r\n";
        int n = static_cast<int>(rng.range(0, 4));
        for (int i = 0; i < n; ++i) s += std::string(kHostileResponseHeaders[rng.below(sizeof kHostileResponseHeaders / sizeof kHostileResponseHeaders[0])]) + "\r\n";
        int b = static_cast<int>(rng.below(4));
        if (b == 0) s += "Content-Length: " + std::to_string(body.size()) + "\r\n\r\n" + body;
        else if (b == 1) s += "\r\n" + msggen::chunked_body(rng, 300, nullptr);
        else if (b == 2) s += "Transfer-Encoding: chunked\r\n\r\n" + std::string(rng.chance(0.5) ? "ffffffffffffffff\r\n" : "\r\n") + body + "\r\n0\r\n\r\n";
        else s += "\r\n";
        return s;
    }
    std::string s;
    size_t n = static_cast<size_t>(rng.below(400));
    for (size_t i = 0; i < n; ++i) {
        int c = static_cast<int>(rng.below(20));
        s.push_back(c == 0 ? '\r' : c == 1 ? '\n' : c == 2 ? ' ' : c == 3 ? ':' : c == 4 ? '\0' : static_cast<char>(rng.below(256)));
    }
    return s;
}

Json gen_hostile(sim::Rng& rng, int tier)
{
    Json p = Json::object();
    p["client_threads"] = static_cast<int>(rng.range(1, 2));
    p["max_conn"] = static_cast<int>(rng.range(1, 3));
    p["hostile_server"] = true;
    int total = static_cast<int>(rng.range(1, tier ? 10 : 6));
    Json ji = Json::array();
    ji.push(Json::array());
    u64 tag = 100000 + rng.below(800000);
    for (int k = 0; k < total; ++k) {
        Json q = Json::object();
        q["tag"] = static_cast<long long>(++tag);
        bool hostile = rng.chance(0.6);
        q["behaviour"] = hostile ? "raw" : "immediate";
        if (hostile) q["raw"] = hostile_response(rng, tag);
        q["timeout_ms"] = static_cast<long>(300 + rng.below(700));
        q["server_delay_us"] = 0L;
        q["piece"] = rng.chance(0.5) ? 0 : static_cast<int>(1 + rng.below(30));
        q["gap_us"] = static_cast<int>(21 + 2 * rng.below(500)); // odd: dribbled
        q["issue_delay_us"] = static_cast<int>(rng.below(2000));
        q["body_len"] = static_cast<int>(rng.below(100));
        ji.a[0].push(q);
    }
    p["issuers"] = ji;
    p["latency_us"] = static_cast<int>(5 + rng.below(300));
    gen_sched(rng, p, 4000, false);
    return p;
}

Scenario sch { "c15_hostile_server", "C03", "real HTTP client vs a scripted server that answers with hostile / mutated responses", gen_hostile, run };
Registrar regh(&sch);

Scenario sc { "c15_client", "C15", "real HTTP client (1..2 threads, 1..4 connections) vs scripted server with per-request behaviours", gen, run };
Registrar reg(&sc);

} // namespace
