// C14 — size limits and read time-outs are enforced exactly.
//
// Size: the maximum request size is drawn (64 B .. 8 KiB); requests of total size limit-1,
// limit, limit+1 and random sizes are delivered in drawn segmentations (including the byte that
// crosses the limit arriving alone). Oracle: the handler ran <=> size <= limit; an oversized
// request's first answer is 413 and the handler never runs for it.
// Time: header and body time-outs are drawn (1..10 s, all three orders); a connection stalls
// at a drawn point (after connect, inside the request line, inside the headers, inside the
// body, between keep-alive requests) for a duration drawn outside the band that the
// half-second scan makes undecidable. Oracle: a request completed within the time-outs is
// never answered 408; a connection stalled beyond time-out + scan period has received 408 and
// seen the close. The simulated clock makes ten-second time-outs cost microseconds.
#include <set>

#include "actors.h"
#include "httpworld.h"
#include "scenario.h"

using namespace scen;
using namespace Pistache;
using sim::i64;
using sim::u64;

namespace {

const i64 kScanMs = 500, kMarginMs = 300;

Json gen(sim::Rng& rng, int tier)
{
    Json p = Json::object();
    static const long limits[] = { 64, 100, 128, 200, 256, 512, 1000, 1024, 2048, 4096, 4097, 5000, 8192 };
    long L = limits[rng.below(sizeof limits / sizeof limits[0])];
    if (rng.chance(0.3)) L = static_cast<long>(64 + rng.below(8129));
    p["max_req"] = L;
    p["workers"] = static_cast<int>(rng.range(1, 3));
    long H = static_cast<long>(1000 + rng.below(9000)), B = static_cast<long>(1000 + rng.below(9000));
    if (rng.chance(0.2)) B = H;
    p["header_timeout_ms"] = H;
    p["body_timeout_ms"] = B;
    Json conns = Json::array();
    int n = static_cast<int>(rng.range(1, tier ? 6 : 4));
    u64 tag = 100000 + rng.below(800000);
    for (int i = 0; i < n; ++i) {
        Json c = Json::object();
        c["tag"] = static_cast<long long>(++tag);
        c["start_us"] = static_cast<int>(rng.below(5000));
        if (rng.chance(0.2)) {
            // a keep-alive connection that lives longer than the time-outs although every request on it is prompt
            c["kind"] = "chain";
            long T = std::min(H, B);
            int k = static_cast<int>(rng.range(3, 6));
            Json gaps = Json::array();
            for (int q = 0; q < k; ++q) gaps.push(static_cast<long>(rng.below(static_cast<u64>(std::max<long>(1, T - kMarginMs)))));
            c["gaps_ms"] = gaps;
        } else if (rng.chance(0.5)) {
            c["kind"] = "size";
            int k = static_cast<int>(rng.below(8));
            long total = k == 0 ? L - 1 : k == 1 ? L : k == 2 ? L + 1 : k == 3 ? L + static_cast<long>(rng.below(200)) : k == 4 ? L - static_cast<long>(rng.below(static_cast<u64>(std::min<long>(L - 60, 200)))) : static_cast<long>(60 + rng.below(static_cast<u64>(2 * L)));
            c["total"] = total;
            c["chunked"] = rng.chance(0.2);
            // segmentation: 0..4 cuts, some right at the limit
            Json cuts = Json::array();
            int nc = static_cast<int>(rng.below(5));
            for (int q = 0; q < nc; ++q) {
                long at = rng.chance(0.4) ? L + static_cast<long>(rng.below(3)) - 1 : static_cast<long>(1 + rng.below(static_cast<u64>(std::max<long>(2, total))));
                cuts.push(at);
            }
            c["cuts"] = cuts;
            c["gap_us"] = static_cast<int>(500 + rng.below(3000));
            c["requests_before"] = static_cast<int>(rng.below(3)); // small keep-alive requests before the probe
        } else {
            c["kind"] = "time";
            static const char* points[] = { "connect", "line", "headers", "body", "between" };
            std::string pt = points[rng.below(5)];
            c["stall_point"] = pt;
            long T = pt == "body" ? B : std::min(H, B);
            bool over = rng.chance(0.5);
            long d = over ? T + kScanMs + kMarginMs + static_cast<long>(rng.below(1500)) : static_cast<long>(rng.below(static_cast<u64>(std::max<long>(1, T - kMarginMs))));
            c["stall_ms"] = d;
            c["body_len"] = static_cast<int>(10 + rng.below(40));
        }
        conns.push(c);
    }
    // descriptor numbers are reused: in a quarter of the runs a connection that is timed out (answered 408 and closed by the
    // server) is followed, within one scan period of its end, by a new connection that stalls in its turn
    if (rng.chance(0.25)) {
        static const char* points[] = { "connect", "line", "headers" };
        long T = std::min(H, B);
        Json a = Json::object();
        a["tag"] = static_cast<long long>(++tag);
        a["start_us"] = static_cast<int>(rng.below(3000));
        a["kind"] = "time";
        a["stall_point"] = points[rng.below(3)];
        a["stall_ms"] = T + kScanMs + kMarginMs + static_cast<long>(rng.below(800));
        a["body_len"] = 20;
        conns.push(a);
        int nsucc = static_cast<int>(rng.range(1, 2));
        for (int q = 0; q < nsucc; ++q) {
            Json b = Json::object();
            b["tag"] = static_cast<long long>(++tag);
            b["after"] = static_cast<int>(conns.size()) - 1 - q;
            b["start_us"] = static_cast<int>(rng.below(300000)); // after the predecessor's end
            b["kind"] = "time";
            b["stall_point"] = points[rng.below(3)];
            b["stall_ms"] = T + kScanMs + kMarginMs + static_cast<long>(rng.below(800));
            b["body_len"] = 20;
            conns.push(b);
        }
    }
    // a busy worker: one keep-alive client keeps the only worker in a slow handler (0.6..1.6 s each, back to back) for the
    // whole run, so that the idle scan's timer has expired more than once whenever the worker gets back to it and input,
    // ticks and writable events come in batches. Only stalls far beyond the time-outs are judged here (a request that
    // arrives in time while the worker is busy is *seen* late by the server, which the statement does not settle).
    if (rng.chance(0.12)) {
        long busy_ms = static_cast<long>(600 + rng.below(1000));
        p["busy_ms"] = busy_ms;
        p["workers"] = 1;
        conns = Json::array();
        static const char* points[] = { "connect", "line", "headers", "body" };
        int k = static_cast<int>(rng.range(1, 3));
        for (int i = 0; i < k; ++i) {
            Json c = Json::object();
            c["tag"] = static_cast<long long>(++tag);
            c["start_us"] = static_cast<int>(rng.below(900000));
            c["kind"] = "time";
            std::string pt = points[rng.below(4)];
            c["stall_point"] = pt;
            long T = pt == "body" ? B : std::min(H, B);
            c["stall_ms"] = T + kScanMs + kMarginMs + 4 * busy_ms + static_cast<long>(rng.below(1500));
            c["body_len"] = static_cast<int>(10 + rng.below(40));
            conns.push(c);
        }
    }
    // the wall clock is stepped now and then (NTP step, date set by hand, VM resume): by seconds or by hours, forwards or
    // backwards, at drawn instants of the run. Time-outs are intervals and must not care.
    if (rng.chance(0.3)) {
        Json steps = Json::array();
        int ns = static_cast<int>(rng.range(1, 3));
        for (int i = 0; i < ns; ++i) {
            Json st = Json::object();
            st["at_ms"] = static_cast<long>(rng.below(static_cast<u64>(std::max(H, B) + 3000)));
            long mag = rng.chance(0.5) ? static_cast<long>(500 + rng.below(5000)) : static_cast<long>(60000 + rng.below(7200000));
            st["delta_ms"] = rng.chance(0.5) ? mag : -mag;
            steps.push(st);
        }
        p["clock_steps"] = steps;
    }
    p["conns"] = conns;
    for (size_t i = 0; i < conns.size(); ++i)
        if (conns.at(i).str("kind") == "time" && L < 256) p["max_req"] = 256L; // the stalled request itself must fit
    gen_sched(rng, p, 4000, false);
    return p;
}

std::string body_of(size_t n) { return std::string(n, 'x'); }

void run(const Json& plan)
{
    sim::Recorder& r = sim::rec();
    const int port = 9080;
    const long L = static_cast<long>(std::max<i64>(64, plan.num("max_req", 4096)));
    const i64 H = std::max<i64>(500, plan.num("header_timeout_ms", 5000)), B = std::max<i64>(500, plan.num("body_timeout_ms", 5000));
    httpw::World w;
    httpw::Opts o;
    o.workers = std::max(1, std::min(4, static_cast<int>(plan.num("workers", 1))));
    o.max_req = static_cast<size_t>(L);
    o.header_timeout_ms = H;
    o.body_timeout_ms = B;
    o.port = port;
    w.start(o);

    struct CP {
        std::string kind, tag, point;
        long total = 0, stall = 0;
        int before = 0;
        bool expect_timeout = false;
        std::shared_ptr<actors::Client> cl;
        size_t head_len = 0;
    };
    std::vector<CP> cps;
    const Json& conns = plan.get("conns");
    i64 longest = 0;
    for (size_t i = 0; i < conns.size(); ++i) {
        const Json& c = conns.at(i);
        CP cp;
        cp.kind = c.str("kind", "size");
        cp.tag = std::to_string(c.num("tag"));
        using actors::Step;
        std::vector<Step> st;
        st.push_back(httpw::step(Step::Connect));
        const i64 kAwait = 3000LL * 1000000LL;
        if (cp.kind == "chain") {
            const Json& gaps = c.get("gaps_ms");
            long T = static_cast<long>(std::min(H, B));
            i64 total_ns = 0;
            for (size_t q = 0; q < gaps.size() && q < 8; ++q) {
                long g = static_cast<long>(std::max<i64>(0, gaps.at(q).as_int()));
                if (g >= T - kMarginMs) g = std::max<long>(0, T - kMarginMs - 1); // every request starts well within the time-outs
                st.push_back(httpw::step(Step::Pause, g * 1000000LL));
                st.push_back(httpw::send_step(actors::http_request("GET", "/echo/" + cp.tag + "-" + std::to_string(q), { { "Host", "s" } }, "")));
                st.push_back(httpw::step(Step::Await, kAwait, static_cast<int>(q + 1)));
                total_ns += g * 1000000LL;
                cp.before = static_cast<int>(q + 1);
            }
            longest = std::max(longest, total_ns);
            cp.stall = static_cast<long>(total_ns / 1000000);
            st.push_back(httpw::step(Step::Close));
        } else if (cp.kind == "size") {
            cp.total = static_cast<long>(std::max<i64>(70, c.num("total", 100)));
            cp.before = std::max(0, std::min(3, static_cast<int>(c.num("requests_before", 0))));
            for (int k = 0; k < cp.before; ++k) {
                st.push_back(httpw::send_step(actors::http_request("GET", "/echo/pre" + cp.tag, { { "Host", "s" } }, "")));
                st.push_back(httpw::step(Step::Await, kAwait, k + 1));
            }
            // build a request of exactly `total` bytes on the wire
            std::string req;
            bool chunked = c.flag("chunked");
            for (long body = 0;; ++body) {
                if (chunked) {
                    std::string head = "POST /echo/" + cp.tag + " HTTP/1.1\r\nHost: s\r\nTransfer-Encoding: chunked\r\n\r\n";
                    req = head + actors::chunked({ body_of(static_cast<size_t>(body) + 1) });
                } else {
                    req = actors::http_request("POST", "/echo/" + cp.tag, { { "Host", "s" } }, body_of(static_cast<size_t>(body)));
                }
                if (static_cast<long>(req.size()) >= cp.total) break;
            }
            cp.total = static_cast<long>(req.size());
            std::vector<size_t> cuts;
            const Json& jc = c.get("cuts");
            for (size_t q = 0; q < jc.size(); ++q) {
                long at = static_cast<long>(jc.at(q).as_int());
                if (at > 0 && at < cp.total) cuts.push_back(static_cast<size_t>(at));
            }
            st.push_back(httpw::send_step(req, cuts, std::max<i64>(200, c.num("gap_us", 1000)) * 1000));
            st.push_back(httpw::step(Step::Await, kAwait, cp.before + 1));
            st.push_back(httpw::step(Step::Close));
        } else {
            cp.point = c.str("stall_point", "connect");
            cp.stall = static_cast<long>(std::max<i64>(0, c.num("stall_ms", 0)));
            long T = static_cast<long>(cp.point == "body" ? B : std::min(H, B));
            // generated plans stay out of the undecidable band; a shrunk plan may not: then nothing is demanded
            cp.expect_timeout = cp.stall > T + kScanMs + kMarginMs;
            bool decidable = cp.expect_timeout || cp.stall < T - kMarginMs;
            if (!decidable) cp.kind = "time-undecidable";
            std::string body = body_of(static_cast<size_t>(std::max<i64>(1, c.num("body_len", 20))));
            std::string req = actors::http_request("POST", "/echo/" + cp.tag, { { "Host", "s" }, { "X-Pad", "abcdefgh" } }, body);
            if (static_cast<long>(req.size()) > L) cp.kind = "time-undecidable"; // the size limit would answer first
            size_t line_end = req.find("\r\n") + 2, head_end = req.find("\r\n\r\n") + 4;
            size_t cut = cp.point == "line" ? line_end / 2 : cp.point == "headers" ? (line_end + head_end) / 2 : cp.point == "body" ? head_end + body.size() / 2 : 0;
            i64 stall_ns = cp.stall * 1000000LL;
            longest = std::max(longest, stall_ns);
            if (cp.point == "between") {
                st.push_back(httpw::send_step(actors::http_request("GET", "/echo/first" + cp.tag, { { "Host", "s" } }, "")));
                st.push_back(httpw::step(Step::Await, kAwait, 1));
                cp.before = 1;
            }
            if (cut > 0) st.push_back(httpw::send_step(req.substr(0, cut)));
            st.push_back(httpw::step(Step::Pause, stall_ns));
            st.push_back(httpw::send_step(req.substr(cut)));
            st.push_back(httpw::step(Step::Await, kAwait, cp.before + 1));
            st.push_back(httpw::step(Step::AwaitClose, 300 * 1000000LL));
            st.push_back(httpw::step(Step::Close));
        }
        cp.cl = std::make_shared<actors::Client>(static_cast<int>(i), port, st);
        int after = c.has("after") ? static_cast<int>(c.num("after", -1)) : -1;
        if (after >= 0 && after < static_cast<int>(cps.size())) {
            // starts when the server has ended its predecessor (polled every 2 simulated ms for at most 60 s)
            auto pred = cps[static_cast<size_t>(after)].cl;
            auto me = cp.cl;
            i64 delay = std::max<i64>(0, std::min<i64>(c.num("start_us", 0), 400000)) * 1000;
            auto tries = std::make_shared<int>(0);
            auto poll = std::make_shared<std::function<void()>>();
            *poll = [pred, me, delay, tries, poll] {
                if (pred->st.peer_fin || pred->st.reset || pred->finished() || ++*tries > 30000) me->start(delay);
                else sim::schedule_in(2 * 1000000LL, *poll, "driver.successor");
            };
            sim::schedule_in(2 * 1000000LL, *poll, "driver.successor");
            longest += longest; // the successor waits for its predecessor
            r.probe("successor-on-a-reused-descriptor");
        } else
            cp.cl->start(c.num("start_us", 0) * 1000);
        cps.push_back(cp);
    }
    for (size_t i = 0; i < plan.get("clock_steps").size() && i < 8; ++i) {
        const Json& st = plan.get("clock_steps").at(i);
        const i64 delta = std::max<i64>(-10000000, std::min<i64>(st.num("delta_ms", 0), 10000000)) * 1000000LL;
        sim::schedule_at(std::max<i64>(0, std::min<i64>(st.num("at_ms", 0), 100000)) * 1000000LL, [delta] { sim::step_wall_clock(delta); }, "fault.clock-step");
        r.probe("wall-clock-stepped");
    }
    std::shared_ptr<actors::Client> busy_client;
    const i64 busy_ms = std::max<i64>(0, std::min<i64>(plan.num("busy_ms", 0), 3000));
    if (busy_ms > 0) {
        using actors::Step;
        std::vector<Step> bs { httpw::step(Step::Connect) };
        int count = static_cast<int>(std::min<i64>(60, (longest / 1000000LL + 3000) / busy_ms + 2));
        for (int k = 0; k < count; ++k) {
            bs.push_back(httpw::send_step(actors::http_request("GET", "/busy/" + std::to_string(busy_ms * 1000) + "/b" + std::to_string(k), { { "Host", "s" } }, "")));
            bs.push_back(httpw::step(Step::Await, (busy_ms + 8000) * 1000000LL, k + 1));
        }
        bs.push_back(httpw::step(Step::Close));
        busy_client = std::make_shared<actors::Client>(900, port, bs);
        busy_client->start(0);
        r.probe("busy-worker");
    }
    const std::function<bool()> all_done = [&] {
        for (auto& c : cps)
            if (!c.cl->finished()) return false;
        return true;
    };
    scen::wait_for(all_done, longest + 30LL * 1000000000LL, "driver.wait-clients");

    // ---- oracle
    auto handler_ran = [&](const std::string& tag) {
        for (auto& rq : w.requests)
            if (rq.resource == "/echo/" + tag) return true;
        return false;
    };
    for (auto& cp : cps) {
        auto& cl = cp.cl;
        std::string who = "connection " + std::to_string(cl->id) + " (" + cp.kind + ")";
        if (cl->reader.broken) {
            r.violation("C14.response:malformed", who + " received bytes that are not an HTTP response: " + cl->reader.broken_why);
            continue;
        }
        size_t idx = static_cast<size_t>(cp.before);
        int status = cl->reader.done.size() > idx ? cl->reader.done[idx].status : 0;
        if (cp.kind == "size") {
            bool over = cp.total > L;
            std::string sz = "request of " + std::to_string(cp.total) + " bytes with limit " + std::to_string(L);
            r.probe(over ? (cp.total == L + 1 ? "size-limit-plus-1" : "size-over") : (cp.total == L ? "size-at-limit" : cp.total == L - 1 ? "size-limit-minus-1" : "size-under"));
            if (over) {
                if (handler_ran(cp.tag)) r.violation("C14.size:oversized-request-delivered", who + ": " + sz + " was delivered to the handler");
                if (status != 413) r.violation("C14.size:oversized-request-not-answered-413", who + ": " + sz + " was answered " + std::to_string(status) + " instead of 413");
            } else {
                if (status == 413) r.violation("C14.size:request-within-limit-refused", who + ": " + sz + " was refused with 413");
                else if (!handler_ran(cp.tag) || status != 200) r.violation("C14.size:request-within-limit-not-served", who + ": " + sz + " was answered " + std::to_string(status) + (handler_ran(cp.tag) ? "" : " and never reached the handler"));
            }
        } else if (cp.kind == "chain") {
            long T = static_cast<long>(std::min(H, B));
            r.probe(cp.stall > T + kScanMs ? "chain-outlives-time-out" : "chain-short");
            for (int q = 0; q < cp.before; ++q) {
                int stq = cl->reader.done.size() > static_cast<size_t>(q) ? cl->reader.done[static_cast<size_t>(q)].status : 0;
                std::string what = who + ": request " + std::to_string(q + 1) + " of " + std::to_string(cp.before) + " prompt requests on a keep-alive connection that had been open for up to " + std::to_string(cp.stall) + " ms (header/body time-outs " + std::to_string(H) + "/" + std::to_string(B) + " ms, every idle gap below the time-out)";
                if (stq == 408) {
                    r.violation("C14.time:request-within-time-outs-timed-out:keep-alive-chain", what + " was answered 408");
                    break;
                }
                if (stq != 200 || !handler_ran(cp.tag + "-" + std::to_string(q))) {
                    r.violation("C14.time:request-within-time-outs-not-served:keep-alive-chain", what + " was answered " + std::to_string(stq));
                    break;
                }
            }
        } else if (cp.kind == "time") {
            std::string what = who + ": stalled " + std::to_string(cp.stall) + " ms at '" + cp.point + "' with header/body time-outs " + std::to_string(H) + "/" + std::to_string(B) + " ms";
            r.probe(std::string("stall-") + cp.point + (cp.expect_timeout ? "-over" : "-under"));
            if (cp.expect_timeout) {
                if (status != 408) r.violation("C14.time:stalled-connection-not-answered-408:" + cp.point, what + " and was answered " + std::to_string(status) + " instead of 408");
                if (!(cl->st.peer_fin || cl->st.reset)) r.violation("C14.time:stalled-connection-not-closed:" + cp.point, what + " and was not closed by the server");
                if (handler_ran(cp.tag)) r.violation("C14.time:timed-out-request-delivered:" + cp.point, what + " and the request still reached the handler");
            } else {
                if (status == 408) r.violation("C14.time:request-within-time-outs-timed-out:" + cp.point, what + " (within the time-outs) and was answered 408");
                else if (status != 200 || !handler_ran(cp.tag)) r.violation("C14.time:request-within-time-outs-not-served:" + cp.point, what + " and was answered " + std::to_string(status));
            }
        }
    }
    std::set<int> worker_threads;
    for (auto& rq : w.requests) worker_threads.insert(rq.thread);
    if (worker_threads.size() > 1) r.probe("several-workers-used");
    for (auto& cp : cps)
        if (cp.cl->sock && !cp.cl->st.closed_by_us) cp.cl->sock->close();
    if (busy_client && busy_client->sock && !busy_client->st.closed_by_us) busy_client->sock->close();
    w.stop();
}

Scenario sc { "c14_limits", "C14", "request sizes around the limit in drawn segmentations; stalls on either side of the header/body time-outs", gen, run };
Registrar reg(&sc);

} // namespace
