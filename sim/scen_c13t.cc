// C13 at the level of the real transport: the consumers of the cross-thread queues are the event loops
// of Tcp::Transport (writes, timers, new peers). Several connections arrive at about the same time on 1..2
// workers; an application thread arms response time-outs (timersQueue) and sends replies (writesQueue) for
// them in quick succession, so that several items are queued before the loop thread looks at a queue.
// Oracle (no missed wake-up, no item left behind): every armed time-out fires - the client receives the 408
// of Handler::onTimeout within the time-out plus a margin -, every reply from the application thread
// arrives, every connection is served.
#include "actors.h"
#include "httpworld.h"
#include "scenario.h"

using namespace scen;
using namespace Pistache;
using sim::i64;
using sim::u64;

namespace {

Json gen(sim::Rng& rng, int tier)
{
    Json p = Json::object();
    p["workers"] = static_cast<int>(rng.range(1, 2));
    p["app_delay_us"] = rng.chance(0.5) ? 0 : static_cast<int>(rng.below(3000));
    // in half of the runs the application thread lets the requests pile up and then handles them back to back
    p["app_gather_us"] = rng.chance(0.5) ? static_cast<int>(200 + rng.below(3000)) : 0;
    Json conns = Json::array();
    int nc = static_cast<int>(rng.range(2, tier ? 8 : 6));
    u64 tag = 100000 + rng.below(800000);
    for (int i = 0; i < nc; ++i) {
        Json c = Json::object();
        int k = static_cast<int>(rng.below(10));
        // "async-gone": the client leaves before the application thread replies; the reply is queued for the loop thread and
        // dropped there (the peer is gone) - whatever is queued behind it still has to be written
        c["kind"] = k < 5 ? "tmoasync" : k < 7 ? "async" : k < 9 ? "async-gone" : "size";
        // (not generated: "tmoreplyasync" - the application thread arms the response time-out and replies at once. On the
        // unchanged tree the reply's disarm finds the timer not armed yet - the arming request is still in the worker's
        // queue - and throws; no listed property covers that use, see DESIGN 9. The route exists for experiments.)
        c["ms"] = static_cast<int>(20 + rng.below(400));
        c["size"] = static_cast<int>(rng.below(3000));
        c["tag"] = static_cast<long long>(tag += 10);
        c["start_us"] = rng.chance(0.6) ? 0 : static_cast<int>(rng.below(2000));
        c["latency_us"] = static_cast<int>(5 + rng.below(200));
        // async-gone: the moment of leaving, somewhere around the moment the application thread replies
        c["leave_us"] = static_cast<int>(rng.below(static_cast<sim::u64>(p.num("app_gather_us", 0) + p.num("app_delay_us", 0) + 700)));
        conns.push(c);
    }
    // a fifth of the runs: one worker that is busy in a slow handler while the application thread replies to a client that
    // has left meanwhile - the loop thread comes back to find the disconnection ahead of the queue's notification, drops
    // that reply, and must still write what is queued behind it (the slow handler's own reply)
    if (rng.chance(0.2)) {
        p["workers"] = 1;
        p["app_gather_us"] = 0;
        int R = static_cast<int>(400 + rng.below(1500));
        p["app_delay_us"] = R;
        Json c2 = Json::array();
        Json a = Json::object();
        a["kind"] = "async-gone";
        a["ms"] = static_cast<int>(rng.below(2));
        a["size"] = static_cast<int>(rng.below(2000));
        a["tag"] = static_cast<long long>(tag += 10);
        a["start_us"] = 0;
        a["latency_us"] = 20;
        int bstart = static_cast<int>(60 + rng.below(150));
        a["leave_us"] = bstart + 100 + static_cast<int>(rng.below(static_cast<sim::u64>(std::max(1, R - bstart - 150))));
        c2.push(a);
        Json b = Json::object();
        b["kind"] = "busy";
        b["ms"] = 0;
        b["size"] = R + static_cast<int>(500 + rng.below(2000)); // busy time in microseconds
        b["tag"] = static_cast<long long>(tag += 10);
        b["start_us"] = bstart;
        b["latency_us"] = 20;
        c2.push(b);
        for (size_t i = 0; i + 2 < conns.size() && i < 2; ++i) c2.push(conns.at(i));
        conns = c2;
    }
    // descriptor reuse behind a queued reply: a client leaves at about the moment the application thread answers it; that
    // thread is descheduled on its way into the worker's queue (after it has made sure of the peer, before the entry is in
    // the queue) while the worker closes the connection and a latecomer is accepted under the same descriptor number. The
    // reply that arrives in the queue afterwards belongs to nobody; the latecomer must get its own answer and nothing else.
    if (rng.chance(0.12)) {
        p["workers"] = 1;
        p["app_gather_us"] = 0;
        int R = static_cast<int>(200 + rng.below(800));
        p["app_delay_us"] = R;
        Json c5 = Json::array();
        int pairs = static_cast<int>(rng.range(1, 2));
        for (int i = 0; i < pairs; ++i) {
            Json a = Json::object();
            a["kind"] = "async-gone";
            a["ms"] = static_cast<int>(rng.below(2));
            a["size"] = static_cast<int>(50 + rng.below(2000));
            a["tag"] = static_cast<long long>(tag += 10);
            a["start_us"] = i * 40;
            a["latency_us"] = 20;
            int leave = R - 100 + static_cast<int>(rng.below(200));
            a["leave_us"] = std::max(1, leave);
            c5.push(a);
            Json b = Json::object();
            b["kind"] = "size";
            b["ms"] = 0;
            b["size"] = static_cast<int>(rng.below(300));
            b["tag"] = static_cast<long long>(tag += 10);
            b["start_us"] = i * 40 + 60 + leave + static_cast<int>(50 + rng.below(600)); // right behind the one that left
            b["latency_us"] = 20;
            b["leave_us"] = 0;
            b["send_after_us"] = static_cast<int>(1500 + rng.below(3000));          // its request comes a little later
            c5.push(b);
        }
        conns = c5;
        p["reuse"] = true;
        Json hs = Json::array();
        hs.push(std::string("queue.push.exchange"));
        p["hot_sites"] = hs; // (moved into "sched" below, once gen_sched has drawn it)
    }
    // long-poll across workers: requests park their response (with a long time-out); later requests - on whichever worker
    // their connection belongs to - complete the parked ones from inside their handler. A write issued on one worker's
    // thread for a connection of another worker goes through that other worker's queue and has to wake *its* loop.
    if (rng.chance(0.15)) {
        p["workers"] = 2;
        p["app_gather_us"] = 0;
        Json c4 = Json::array();
        int P = static_cast<int>(rng.range(1, 3));
        for (int i = 0; i < 2 * P; ++i) {
            Json c = Json::object();
            c["kind"] = i < P ? "park" : "notify";
            c["ms"] = 3000;
            c["size"] = 0;
            c["tag"] = static_cast<long long>(tag += 10);
            c["start_us"] = i < P ? static_cast<int>(rng.below(500)) : static_cast<int>(2000 + rng.below(4000));
            c["latency_us"] = static_cast<int>(5 + rng.below(100));
            c["leave_us"] = 0;
            c4.push(c);
        }
        for (size_t i = 0; i < conns.size() && i < 2; ++i)
            if (conns.at(i).str("kind") != "busy") c4.push(conns.at(i));
        conns = c4;
    }
    // a crowd, now and then: 70..140 connections of one worker get their replies (or their time-outs armed) by the
    // application thread back to back while the worker sits in a slow handler - the loop thread comes back to a queue that
    // holds far more items than any batch size somebody might have picked, and nothing else wakes it afterwards
    if (rng.chance(0.06)) {
        p["workers"] = 1;
        int G = static_cast<int>(4000 + rng.below(8000));
        p["app_gather_us"] = G;
        p["app_delay_us"] = 0;
        p["crowd"] = true;
        Json c3 = Json::array();
        int N = static_cast<int>(70 + rng.below(51)); // (below the listen backlog of 128: the simulated kernel gives a dropped SYN up)
        for (int i = 0; i < N; ++i) {
            Json c = Json::object();
            c["kind"] = "async"; // (nothing that would queue a write later on and wake the loop for the ones left behind)
            c["ms"] = static_cast<int>(20 + rng.below(80));
            c["size"] = static_cast<int>(rng.below(200));
            c["tag"] = static_cast<long long>(tag += 10);
            c["start_us"] = static_cast<int>(rng.below(2000));
            c["latency_us"] = static_cast<int>(10 + rng.below(30));
            c["leave_us"] = 0;
            c3.push(c);
        }
        Json b = Json::object();
        b["kind"] = "busy";
        b["ms"] = 0;
        b["size"] = static_cast<int>(3000 + rng.below(6000));
        b["tag"] = static_cast<long long>(tag += 10);
        b["start_us"] = G - static_cast<int>(300 + rng.below(1200));
        b["latency_us"] = 20;
        c3.push(b);
        conns = c3;
    }
    p["conns"] = conns;
    gen_sched(rng, p, 3000, false);
    if (p.flag("reuse")) {
        p["sched"]["hot_sites"] = p["hot_sites"];
        p["sched"]["hot_thread_prefix"] = "app";
        p["sched"]["hot_pause_permille"] = static_cast<int>(500 + rng.below(500));
        p["sched"]["pause_max_us"] = static_cast<int>(500 + rng.below(3000));
        p["sched"]["max_pauses"] = 8;
    }
    return p;
}

void run(const Json& plan)
{
    sim::Recorder& r = sim::rec();
    const int port = 9080;
    httpw::World w;
    httpw::Opts o;
    o.workers = std::max(1, std::min(3, static_cast<int>(plan.num("workers", 1))));
    o.port = port;
    o.app_delay_ns = std::max<i64>(0, std::min<i64>(plan.num("app_delay_us", 0), 20000)) * 1000;
    o.app_gather_ns = std::max<i64>(0, std::min<i64>(plan.num("app_gather_us", 0), 20000)) * 1000;
    w.start(o);
    if (plan.flag("crowd")) r.probe("crowd");
    if (plan.flag("reuse")) r.probe("latecomer-on-a-reused-descriptor");
    using actors::Step;
    const Json& conns = plan.get("conns");
    struct Want { std::string kind, target, body; i64 ms = 0; };
    std::vector<Want> wants;
    std::vector<std::shared_ptr<actors::Client>> clients;
    for (size_t i = 0; i < conns.size(); ++i) {
        const Json& c = conns.at(i);
        Want wt;
        wt.kind = c.str("kind", "tmoasync");
        u64 tag = static_cast<u64>(c.num("tag"));
        wt.ms = std::max<i64>(1, std::min<i64>(c.num("ms", 100), 5000));
        size_t size = static_cast<size_t>(std::max<i64>(0, std::min<i64>(c.num("size", 100), 20000)));
        if (wt.kind == "tmoasync") wt.target = "/tmoasync/" + std::to_string(wt.ms) + "/" + std::to_string(tag);
        else if (wt.kind == "tmoreplyasync") {
            wt.target = "/tmoreplyasync/" + std::to_string(wt.ms) + "/" + std::to_string(size) + "/" + std::to_string(tag);
            wt.body = actors::pattern(tag, size);
        } else if (wt.kind == "park") {
            wt.target = "/tmo/" + std::to_string(wt.ms) + "/" + std::to_string(tag);
            wt.body = "notified";
        } else if (wt.kind == "notify") {
            wt.target = "/notify/" + std::to_string(tag);
            wt.body = "notify 1";
        }
        else if (wt.kind == "async-gone") wt.target = "/async/" + std::to_string(size) + "/" + std::to_string(tag);
        else if (wt.kind == "busy") {
            wt.ms = std::max<i64>(1, std::min<i64>(c.num("size", 1000), 20000)) / 1000 + 1;
            wt.target = "/busy/" + std::to_string(std::max<i64>(1, std::min<i64>(c.num("size", 1000), 20000))) + "/" + std::to_string(tag);
            wt.body = "busy " + std::to_string(tag);
        }
        else {
            if (wt.kind != "async") wt.kind = "size";
            wt.target = "/" + wt.kind + "/" + std::to_string(size) + "/" + std::to_string(tag);
            wt.body = actors::pattern(tag, size);
        }
        wants.push_back(wt);
        std::vector<Step> st { httpw::step(Step::Connect) };
        if (c.num("send_after_us", 0) > 0) st.push_back(httpw::step(Step::Pause, c.num("send_after_us", 0) * 1000));
        st.push_back(httpw::send_step(actors::http_request("GET", wt.target, { { "Host", "sim" }, { "Connection", "keep-alive" } }, "")));
        if (wt.kind == "async-gone") {
            // gone at about the moment the application thread replies: the reply is queued while the peer is still known, and
            // the loop thread learns of the disconnection before it gets to the queue
            st.push_back(httpw::step(Step::Pause, std::max<i64>(1, c.num("leave_us", 100)) * 1000));
            st.push_back(httpw::step(c.num("ms", 0) % 2 ? Step::Abort : Step::Close));
        } else {
            st.push_back(httpw::step(Step::Await, (wt.ms + 3000) * 1000000LL, 1));
            st.push_back(httpw::step(Step::Close));
        }
        auto cl = std::make_shared<actors::Client>(static_cast<int>(i), port, st);
        cl->custom_net = true;
        cl->to_server.latency_ns = cl->from_server.latency_ns = std::max<i64>(1, c.num("latency_us", 50)) * 1000;
        cl->start(std::max<i64>(0, c.num("start_us", 0)) * 1000);
        clients.push_back(cl);
    }
    const std::function<bool()> all_done = [&] {
        for (auto& c : clients)
            if (!c->finished()) return false;
        return true;
    };
    scen::wait_for(all_done, 30LL * 1000000000LL, "driver.wait-clients");

    const i64 margin = 150 * 1000000LL;
    i64 last_notify_sent = -1;
    for (size_t i = 0; i < clients.size(); ++i)
        if (wants[i].kind == "notify" && !clients[i]->st.send_done.empty()) last_notify_sent = std::max(last_notify_sent, clients[i]->st.send_done[0]);
    i64 busy_total_ns = 0;
    for (auto& wt : wants)
        if (wt.kind == "busy") busy_total_ns += wt.ms * 1000000LL;
    for (size_t i = 0; i < clients.size(); ++i) {
        auto& cl = clients[i];
        const Want& wt = wants[i];
        std::string who = "connection " + std::to_string(i) + " (" + wt.target + ")";
        r.probe("kind-" + wt.kind);
        if (wt.kind == "async-gone") continue;
        if (!cl->st.connected) {
            r.violation("C13.transport:connection-not-served", who + " was never accepted");
            continue;
        }
        if (cl->reader.broken) {
            r.violation("C13.transport:malformed-response", who + ": " + cl->reader.broken_why);
            continue;
        }
        i64 sent = cl->st.send_done.empty() ? -1 : cl->st.send_done[0];
        if (wt.kind == "park") {
            // completed by a /notify handler, possibly on the other worker's thread
            if (cl->responses() == 0) r.violation("C13.wakeup:reply-never-written", who + ": the parked response, completed by another request's handler, never arrived");
            else if (cl->reader.done[0].status != 200 || cl->reader.done[0].body != "notified") r.violation("C13.wakeup:reply-written-late", who + " was answered " + std::to_string(cl->reader.done[0].status) + " instead of the 200 of the handler that completed it");
            else if (last_notify_sent >= 0 && cl->reader.done[0].done_at - last_notify_sent > margin)
                r.violation("C13.wakeup:reply-written-late", who + ": the parked response arrived " + std::to_string((cl->reader.done[0].done_at - last_notify_sent) / 1000000) + " ms after the last notifying request (its write stayed queued until something else woke the loop)");
            continue;
        }
        if (wt.kind == "tmoasync") {
            if (cl->responses() == 0)
                r.violation("C13.wakeup:armed-time-out-never-fired", who + ": the response time-out armed by the application thread " + std::to_string(wt.ms) + " ms after the request never fired (the item queued for the loop thread was left behind)");
            else {
                const auto& resp = cl->reader.done[0];
                if (resp.status != 408) r.violation("C13.transport:wrong-status", who + " was answered " + std::to_string(resp.status) + " instead of the 408 of the time-out handler");
                i64 took = resp.done_at - sent;
                if (took > wt.ms * 1000000LL + (o.app_delay_ns + o.app_gather_ns) * static_cast<i64>(clients.size()) + busy_total_ns + margin)
                    r.violation("C13.wakeup:armed-time-out-fired-late", who + ": the time-out of " + std::to_string(wt.ms) + " ms fired " + std::to_string(took / 1000000) + " ms after the request (its item stayed queued until something else woke the loop)");
            }
        } else {
            if (cl->responses() == 0) r.violation("C13.wakeup:reply-never-written", who + ": the reply never arrived (the write queued for the loop thread was left behind)");
            else if (cl->reader.done[0].status != 200 || cl->reader.done[0].body != wt.body) r.violation("C13.transport:wrong-answer", who + " was answered " + std::to_string(cl->reader.done[0].status) + " with a body of " + std::to_string(cl->reader.done[0].body.size()) + " bytes");
            else if (cl->reader.done[0].done_at - sent > (o.app_delay_ns + o.app_gather_ns) * static_cast<i64>(clients.size()) + busy_total_ns + margin)
                r.violation("C13.wakeup:reply-written-late", who + ": the reply arrived " + std::to_string((cl->reader.done[0].done_at - sent) / 1000000) + " ms after the request");
        }
    }
    r.stats["timeouts_fired"] = w.timeouts_fired;
    for (auto& cl : clients)
        if (cl->sock && !cl->st.closed_by_us) cl->sock->close();
    sim::sleep_ns(5 * 1000000);
    w.stop();
}

Scenario sc { "c13_transport", "C13", "the transport's own queue consumers: time-outs armed and replies sent from an application thread for several connections at once", gen, run };
Registrar reg(&sc);

} // namespace
