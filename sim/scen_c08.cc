// C08 — connection lifecycle is balanced: nothing leaks, nothing is released twice.
//
// (http) A real Http::Endpoint with a recording handler serves several rounds of 1..6
// concurrent connections whose client behaviour is drawn per connection: orderly close,
// close in the middle of a request, half-close, reset when idle / with unread server data /
// while the server has pending writes, silence until the idle time-out, and requests that arm
// response time-outs, serve files, stream chunks or are answered from another thread.
// (tcp) The same connection events against a raw Tcp::Listener with a handler that records
// all three callbacks per connection.
// Oracles: callback sequence per connection, exactly-once release of every descriptor
// (kernel-side anomaly log), descriptor census back at the idle baseline, all peers released,
// a fresh connection still served.
#include <pistache/listener.h>
#include <pistache/peer.h>
#include <pistache/tcp.h>
#include <pistache/transport.h>

#include "actors.h"
#include "httpworld.h"
#include "scenario.h"

using namespace scen;
using namespace Pistache;
using sim::i64;
using sim::u64;

namespace {

const char* kBehaviours[] = { "orderly", "close-mid-request", "half-close", "rst-idle", "rst-unread", "rst-pending",
                              "silence", "partial-then-silence", "tmo", "tmoreply", "file", "file-abort", "async-abort", "never-close", "stream",
                              "silence-close-near-timeout", "silence-abort-near-timeout", "stall-beyond-timeout",
                              "abandon-at-once-close", "abandon-at-once-abort", "abandon-at-once-half-close",
                              "tmo-then-close", "tmo-then-abort", "stall-resume-trickle", "request-then-abort-quickly", "async-close", "tmo-moved",
                              "stall-then-leave", "stream-then-abort-quickly", "busy", "tmo-park", "notify" };
constexpr int kNumBeh = 32;

Json gen(sim::Rng& rng, int tier)
{
    Json p = Json::object();
    p["mode"] = rng.chance(0.75) ? "http" : "tcp";
    p["workers"] = static_cast<int>(rng.range(1, 2));
    p["header_timeout_ms"] = static_cast<int>(1000 + rng.below(2000));
    p["body_timeout_ms"] = static_cast<int>(1000 + rng.below(3000));
    p["app_delay_us"] = static_cast<int>(rng.below(5000));
    int rounds = static_cast<int>(rng.range(1, tier ? 4 : 3));
    Json jr = Json::array();
    u64 tag = 100000 + rng.below(800000);
    // swarm: some runs concentrate on one kind of coincidence
    //  async-race: clients that leave at about the moment an application thread answers them
    //  flush-race: one worker, streamed responses (whose flush() writes whatever is queued for any connection)
    //              next to clients that reset their connection right behind a request
    int mixk = static_cast<int>(rng.below(10));
    //  idle-race:  connections whose reader stalls beyond the idle time-out and that leave while the idle scan's 408 is still
    //              queued behind the blocked response, followed (next round, same descriptor numbers) by silent connections
    //  busy-race:  one worker that sits in a slow handler while other things happen, so that it comes back to a batch of
    //              events: (a) the idle scan's tick and then the FIN of the silent connection it is about to time out;
    //              (b) long-poll style - the request that completes a parked response, a request that parks with a new
    //              time-out, and the expiry of the first parked response's timer, in that order
    std::string mix = mixk == 0 ? "async-race" : mixk == 1 ? "flush-race" : mixk == 2 ? "idle-race" : mixk == 3 ? "busy-race" : "";
    static const char* kIdleRace[] = { "stall-then-leave", "stall-then-leave", "stall-then-leave", "silence", "silence", "partial-then-silence", "orderly" };
    static const char* kAsyncRace[] = { "async-abort", "async-abort", "async-close", "orderly" };
    static const char* kFlushRace[] = { "stream", "stream-then-abort-quickly", "request-then-abort-quickly", "request-then-abort-quickly", "rst-unread", "orderly" };
    if (!mix.empty()) {
        p["mix"] = mix;
        p["mode"] = "http";
        if (mix == "flush-race") p["workers"] = 1;
        if (mix == "idle-race") rounds = std::max(rounds, 2);
        if (mix == "busy-race") {
            p["workers"] = 1;
            p["body_timeout_ms"] = p.num("header_timeout_ms", 2000);
        }
    }
    for (int r = 0; r < rounds; ++r) {
        Json conns = Json::array();
        if (mix == "busy-race") {
            // (connections are made at once; start_us is when the connection sends - a connection that is made late is seen by the
            // worker only after the hand-over from the acceptor, which would put its request behind everything else)
            auto mk = [&](const char* beh, long start_us, long dur_us, long ms) {
                Json c = Json::object();
                c["behaviour"] = beh;
                c["tag"] = static_cast<long long>(++tag);
                c["requests"] = 1;
                c["size"] = dur_us;      // busy: how long the handler computes, in microseconds
                c["ms"] = ms;            // tmo-park: the response time-out
                c["cut_permille"] = static_cast<int>(rng.below(1000));
                c["start_us"] = static_cast<long>(rng.below(1000));
                c["delay_us"] = start_us;
                c["sndbuf"] = 65536L;
                c["near_ms"] = static_cast<int>(rng.below(650));
                conns.push(c);
            };
            long hto_us = static_cast<long>(p.num("header_timeout_ms", 2000)) * 1000;
            if (rng.chance(0.5)) {
                // (a)
                int ns = static_cast<int>(rng.range(1, 2));
                for (int i = 0; i < ns; ++i) mk("silence-close-near-timeout", static_cast<long>(rng.below(2000)), 0, 0);
                mk("busy", hto_us - 150000 + static_cast<long>(rng.below(100000)), 800000 + static_cast<long>(rng.below(300000)), 0);
                // (c) ... and, in half of these, a request that parks its response with a time-out arrives while the worker is
                // busy: the batch it comes back to holds the tick, that request (its timer gets a fresh descriptor) and the
                // silent connection's own last event
                // (its connection has served an ordinary request a little earlier, so that it is not itself over the time-out)
                if (rng.chance(0.5)) {
                    mk("tmo-park", hto_us - 100000 + static_cast<long>(rng.below(700000)), 0, static_cast<long>(100 + rng.below(400)));
                    conns.a.back()["warmup_us"] = hto_us - 600000 + static_cast<long>(rng.below(300000));
                }
            } else {
                // (b) times relative to t0
                long t0 = static_cast<long>(rng.below(3000));
                long ms1 = static_cast<long>(100 + rng.below(150));
                mk("tmo-park", t0, 0, ms1);
                long busy_at = t0 + 5000 + static_cast<long>(rng.below(30000));
                long busy_len = ms1 * 1000 + static_cast<long>(50000 + rng.below(200000));
                mk("busy", busy_at, busy_len, 0);
                long notify_at = busy_at + 5000 + static_cast<long>(rng.below(static_cast<u64>(std::max<long>(1, ms1 * 1000 - (busy_at - t0) - 20000))));
                mk("notify", notify_at, 0, 0);
                mk("tmo-park", notify_at + 2000 + static_cast<long>(rng.below(20000)), 0, static_cast<long>(100 + rng.below(300)));
                if (rng.chance(0.5)) mk("orderly", static_cast<long>(rng.below(3000)), 0, 0);
            }
            jr.push(conns);
            continue;
        }
        int n = static_cast<int>(rng.range(mix.empty() ? 1 : 2, tier ? 6 : 4));
        for (int i = 0; i < n; ++i) {
            Json c = Json::object();
            c["behaviour"] = mix == "async-race" ? kAsyncRace[rng.below(4)] : mix == "flush-race" ? kFlushRace[rng.below(6)] : mix == "idle-race" ? kIdleRace[rng.below(7)] : kBehaviours[rng.below(kNumBeh)];
            if (mix == "async-race") c["leave_at_us"] = static_cast<int>(std::max<i64>(0, p.num("app_delay_us", 0) + static_cast<i64>(rng.below(600)) - 300));
            c["tag"] = static_cast<long long>(++tag);
            c["requests"] = static_cast<int>(rng.range(1, 3));
            c["size"] = static_cast<long>(rng.chance(0.5) ? rng.below(2000) : 20000 + rng.below(200000));
            c["cut_permille"] = static_cast<int>(1 + rng.below(998));
            c["start_us"] = static_cast<int>(rng.below(3000));
            c["delay_us"] = rng.chance(0.35) ? 0 : static_cast<int>(rng.below(20000));
            c["sndbuf"] = rng.chance(0.5) ? 4096L : 65536L;
            c["near_ms"] = static_cast<int>(rng.below(1400)) - 700; // offset from the header time-out
            conns.push(c);
        }
        jr.push(conns);
    }
    p["rounds"] = jr;
    gen_sched(rng, p, 6000, true);
    return p;
}

// ---- raw TCP recording handler -----------------------------------------------------------------
struct TcpWorld {
    std::map<int, std::string> seq; // per connection ordinal: 'C', 'I', 'D'
    std::vector<std::weak_ptr<Tcp::Peer>> peers;
    static int ord_of(int fd)
    {
        for (auto& s : simk::sock_stats())
            if (s.fd == fd && !s.closed) return s.ordinal;
        return -1;
    }
};
class RecHandler : public Tcp::Handler {
public:
    PROTOTYPE_OF(Tcp::Handler, RecHandler)
    explicit RecHandler(TcpWorld* w) : w_(w) { }
    RecHandler(const RecHandler& o) : Tcp::Handler(), w_(o.w_) { }
    void onConnection(const std::shared_ptr<Tcp::Peer>& peer) override
    {
        sim::IgnoreScope ig;
        w_->seq[TcpWorld::ord_of(peer->fd())] += 'C';
        w_->peers.push_back(peer);
    }
    void onDisconnection(const std::shared_ptr<Tcp::Peer>& peer) override
    {
        sim::IgnoreScope ig;
        w_->seq[TcpWorld::ord_of(peer->fd())] += 'D';
    }
    void onInput(const char* buffer, size_t len, const std::shared_ptr<Tcp::Peer>& peer) override
    {
        {
            sim::IgnoreScope ig;
            std::string& s = w_->seq[TcpWorld::ord_of(peer->fd())];
            if (s.empty() || s.back() != 'I') s += 'I';
        }
        // answer every input with a payload whose size is given by the first number in it
        long n = 0;
        for (size_t i = 0; i < len; ++i)
            if (buffer[i] >= '0' && buffer[i] <= '9') {
                n = atol(std::string(buffer + i, len - i).c_str());
                break;
            }
        if (n > 0) {
            std::string data = actors::pattern(1, static_cast<size_t>(std::min<long>(n, 300000)));
            peer->send(RawBuffer(data, data.size()));
        }
    }

private:
    TcpWorld* w_;
};

struct ConnPlan {
    std::string behaviour;
    std::shared_ptr<actors::Client> client;
    bool warm = false; // tmo-park: an ordinary request was sent (and answered) first
};

void run(const Json& plan)
{
    sim::Recorder& r = sim::rec();
    const bool http = plan.str("mode", "http") != "tcp";
    const int port = 9080;
    const i64 hto = std::max<i64>(200, plan.num("header_timeout_ms", 2000)), bto = std::max<i64>(200, plan.num("body_timeout_ms", 2000));
    int workers = std::max(1, std::min(3, static_cast<int>(plan.num("workers", 1))));

    httpw::World hw;
    TcpWorld tw;
    std::unique_ptr<Tcp::Listener> listener;
    // scratch files for the file behaviours
    const Json& rounds = plan.get("rounds");
    if (http) {
        for (size_t ri = 0; ri < rounds.size(); ++ri)
            for (size_t ci = 0; ci < rounds.at(ri).size(); ++ci) {
                const Json& c = rounds.at(ri).at(ci);
                std::string b = c.str("behaviour");
                if (b == "file" || b == "file-abort") hw.make_file(std::to_string(c.num("tag")), static_cast<size_t>(b == "file-abort" ? 300000 : std::max<i64>(1, c.num("size", 100))));
            }
        httpw::Opts o;
        o.workers = workers;
        o.header_timeout_ms = hto;
        o.body_timeout_ms = bto;
        o.max_req = 4096;
        o.port = port;
        o.app_delay_ns = plan.num("app_delay_us", 0) * 1000;
        hw.start(o);
    } else {
        listener = std::make_unique<Tcp::Listener>(Address("127.0.0.1", Port(port)));
        listener->init(static_cast<size_t>(workers), Flags<Tcp::Options>(Tcp::Options::None));
        listener->setHandler(std::make_shared<RecHandler>(&tw));
        listener->bind();
        listener->runThreaded();
    }
    sim::sleep_ns(2 * 1000000); // let the workers reach their loops
    auto baseline = simk::census();

    std::vector<ConnPlan> all;
    for (size_t ri = 0; ri < rounds.size(); ++ri) {
        std::vector<std::shared_ptr<actors::Client>> round_clients;
        const Json& conns = rounds.at(ri);
        for (size_t ci = 0; ci < conns.size(); ++ci) {
            const Json& c = conns.at(ci);
            std::string b = c.str("behaviour", "orderly");
            std::string tag = std::to_string(c.num("tag"));
            long size = static_cast<long>(std::max<i64>(0, c.num("size", 100)));
            i64 delay = c.num("delay_us", 0) * 1000;
            int nreq = std::max(1, std::min(4, static_cast<int>(c.num("requests", 1))));
            using actors::Step;
            std::vector<Step> st;
            st.push_back(httpw::step(Step::Connect));
            auto req = [&](const std::string& target, const std::string& body = "") {
                return http ? actors::http_request(body.empty() ? "GET" : "POST", target, { { "Host", "sim" }, { "Connection", "keep-alive" } }, body)
                            : std::string("get ") + std::to_string(size) + "\n";
            };
            const i64 kAwait = 3000LL * 1000000LL;
            r.probe("behaviour-" + b);
            if (b == "orderly") {
                for (int k = 0; k < nreq; ++k) {
                    st.push_back(httpw::send_step(req("/size/" + std::to_string(size) + "/" + tag)));
                    if (http) st.push_back(httpw::step(Step::Await, kAwait, k + 1));
                    else st.push_back(httpw::step(Step::AwaitBytes, kAwait, static_cast<int>(std::min<long>(size, 300000) * (k + 1))));
                }
                st.push_back(httpw::step(Step::Close));
            } else if (b == "close-mid-request") {
                std::string full = req("/echo/" + tag, actors::pattern(1, 200));
                size_t cut = std::max<size_t>(1, full.size() * static_cast<size_t>(c.num("cut_permille", 500)) / 1000);
                st.push_back(httpw::send_step(full.substr(0, cut)));
                st.push_back(httpw::step(Step::Pause, delay));
                st.push_back(httpw::step(Step::Close));
            } else if (b.compare(0, 15, "abandon-at-once") == 0) {
                // bytes that get no answer, and the end of the stream right behind them (one wake-up at the server)
                std::string full = http ? req("/echo/" + tag, actors::pattern(1, 200)) : std::string("hello without a number\n");
                size_t cut = std::max<size_t>(1, full.size() * static_cast<size_t>(c.num("cut_permille", 500)) / 1000);
                st.push_back(httpw::send_step(http ? full.substr(0, cut) : full));
                if (b == "abandon-at-once-close") st.push_back(httpw::step(Step::Close));
                else if (b == "abandon-at-once-abort") st.push_back(httpw::step(Step::Abort));
                else {
                    st.push_back(httpw::step(Step::ShutdownWr));
                    st.push_back(httpw::step(Step::AwaitClose, (std::max(hto, bto) + 2000) * 1000000LL));
                    st.push_back(httpw::step(Step::Close));
                }
            } else if (b == "half-close") {
                st.push_back(httpw::send_step(req("/size/" + std::to_string(size) + "/" + tag)));
                st.push_back(httpw::step(Step::ShutdownWr));
                st.push_back(httpw::step(Step::AwaitClose, kAwait));
                st.push_back(httpw::step(Step::Close));
            } else if (b == "rst-idle") {
                if (nreq > 1) {
                    st.push_back(httpw::send_step(req("/echo/" + tag)));
                    st.push_back(http ? httpw::step(Step::Await, kAwait, 1) : httpw::step(Step::Pause, 1000000));
                }
                st.push_back(httpw::step(Step::Pause, delay));
                st.push_back(httpw::step(Step::Abort));
            } else if (b == "rst-unread" || b == "rst-pending") {
                st.push_back(httpw::step(Step::StopReading));
                st.push_back(httpw::send_step(req("/size/" + std::to_string(b == "rst-pending" ? 300000 : std::max<long>(size, 1000)) + "/" + tag)));
                st.push_back(httpw::step(Step::Pause, delay + 2000000));
                st.push_back(httpw::step(Step::Abort));
            } else if (b == "request-then-abort-quickly") {
                // the reset lands while the worker is still busy with the batch of events that carried the request
                // (its response queued, possibly flushed by another connection's handler)
                st.push_back(httpw::step(Step::StopReading));
                st.push_back(httpw::send_step(req("/size/" + std::to_string(std::max<long>(size, 1000)) + "/" + tag)));
                st.push_back(httpw::step(Step::Pause, 1000 + (delay % 400000)));
                st.push_back(httpw::step(Step::Abort));
            } else if (b == "stream-then-abort-quickly") {
                // the reset arrives while the handler is still writing and flushing the chunks of this connection's own response
                st.push_back(httpw::step(Step::StopReading));
                st.push_back(httpw::send_step(req("/stream/8/" + std::to_string(std::min<long>(size, 5000) + 1) + "/" + tag)));
                st.push_back(httpw::step(Step::Pause, delay % 300000));
                st.push_back(httpw::step(Step::Abort));
            } else if (b == "busy") {
                st.push_back(httpw::step(Step::Pause, delay));
                st.push_back(httpw::send_step(req("/busy/" + std::to_string(std::max<long>(1, std::min<long>(size, 3000000))) + "/" + tag)));
                st.push_back(httpw::step(Step::Await, kAwait + 3000LL * 1000000LL, 1));
                st.push_back(httpw::step(Step::Close));
            } else if (b == "tmo-park") {
                // parks with a response time-out; answered by /notify or by the time-out
                const i64 warm = std::max<i64>(0, std::min<i64>(c.num("warmup_us", 0) * 1000, delay - 1000));
                if (warm > 0) {
                    // an ordinary request first (the connection's request clock starts again behind it)
                    st.push_back(httpw::step(Step::Pause, warm));
                    st.push_back(httpw::send_step(req("/echo/w" + tag)));
                    st.push_back(httpw::step(Step::Await, kAwait, 1));
                }
                st.push_back(httpw::step(Step::Pause, delay - warm));
                st.push_back(httpw::send_step(req("/tmo/" + std::to_string(std::max<i64>(20, c.num("ms", 200))) + "/" + tag)));
                st.push_back(httpw::step(Step::Await, kAwait + 3000LL * 1000000LL, warm > 0 ? 2 : 1));
                st.push_back(httpw::step(Step::Close));
            } else if (b == "notify") {
                st.push_back(httpw::step(Step::Pause, delay));
                st.push_back(httpw::send_step(req("/notify/" + tag)));
                st.push_back(httpw::step(Step::Await, kAwait + 3000LL * 1000000LL, 1));
                st.push_back(httpw::step(Step::Close));
            } else if (b == "silence") {
                st.push_back(httpw::step(Step::AwaitClose, (std::max(hto, bto) + 2000) * 1000000LL));
                st.push_back(httpw::step(Step::Close));
            } else if (b == "partial-then-silence") {
                std::string full = req("/echo/" + tag, actors::pattern(1, 200));
                size_t cut = std::max<size_t>(1, full.size() * static_cast<size_t>(c.num("cut_permille", 500)) / 1000);
                st.push_back(httpw::send_step(full.substr(0, cut)));
                st.push_back(httpw::step(Step::AwaitClose, (std::max(hto, bto) + 2000) * 1000000LL));
                st.push_back(httpw::step(Step::Close));
            } else if (b == "silence-close-near-timeout" || b == "silence-abort-near-timeout") {
                // the client gives up at about the moment the idle scan answers 408
                i64 at = (std::min(hto, bto) + c.num("near_ms", 0)) * 1000000LL;
                if (c.num("cut_permille", 0) % 2) {
                    std::string full = req("/echo/" + tag, actors::pattern(1, 200));
                    st.push_back(httpw::send_step(full.substr(0, std::max<size_t>(1, full.size() / 3))));
                }
                st.push_back(httpw::step(Step::StopReading));
                st.push_back(httpw::step(Step::Pause, std::max<i64>(1000, at)));
                st.push_back(httpw::step(b == "silence-close-near-timeout" ? Step::Close : Step::Abort));
            } else if (b == "stall-beyond-timeout") {
                // a response larger than the buffers is pending while the reader sleeps through several idle scans
                st.push_back(httpw::step(Step::StopReading));
                st.push_back(httpw::send_step(req("/size/300000/" + tag)));
                st.push_back(httpw::step(Step::Pause, (std::max(hto, bto) + 1700) * 1000000LL));
                st.push_back(httpw::step(Step::ResumeReading));
                st.push_back(httpw::step(Step::AwaitClose, 3000LL * 1000000LL));
                st.push_back(httpw::step(Step::Close));
            } else if (b == "stall-then-leave") {
                // a response larger than the buffers is pending, the reader sleeps beyond the idle time-out (the idle scan's
                // 408 is queued behind the blocked response) and then leaves without ever reading
                st.push_back(httpw::step(Step::StopReading));
                st.push_back(httpw::send_step(req("/size/300000/" + tag)));
                st.push_back(httpw::step(Step::Pause, (std::max(hto, bto) + 200 + (delay / 1000) % 1500) * 1000000LL));
                int how = static_cast<int>(c.num("cut_permille", 0) % 3);
                if (how == 0) st.push_back(httpw::step(Step::Close));
                else if (how == 1) st.push_back(httpw::step(Step::Abort));
                else {
                    st.push_back(httpw::step(Step::ShutdownWr));
                    st.push_back(httpw::step(Step::Pause, 300 * 1000000LL));
                    st.push_back(httpw::step(Step::Close));
                }
            } else if (b == "stall-resume-trickle") {
                // as above, but the moment the reader wakes up it also sends: the descriptor becomes writable (pending
                // response, then the idle scan's 408 and the disconnection chained to it) and readable at the same time
                std::string next = req("/echo/" + tag, actors::pattern(2, 50));
                size_t nbytes = std::min<size_t>(next.size() - 1, 8 + static_cast<size_t>(c.num("cut_permille", 500)) % 40);
                bool send_first = c.num("cut_permille", 0) % 2 == 1;
                st.push_back(httpw::step(Step::StopReading));
                st.push_back(httpw::send_step(req("/size/300000/" + tag)));
                st.push_back(httpw::step(Step::Pause, (std::max(hto, bto) + 1700) * 1000000LL));
                if (!send_first) st.push_back(httpw::step(Step::ResumeReading));
                for (size_t k = 0; k < nbytes; ++k) {
                    st.push_back(httpw::send_step(next.substr(k, 1)));
                    if (send_first && k == 0) st.push_back(httpw::step(Step::ResumeReading));
                    i64 gap = static_cast<i64>((static_cast<u64>(c.num("tag", 0)) * 2654435761u + k * 40503u) % 60) * 1000; // 0..59 us
                    if (gap > 0) st.push_back(httpw::step(Step::Pause, gap));
                }
                st.push_back(httpw::step(Step::AwaitClose, 3000LL * 1000000LL));
                st.push_back(httpw::step(Step::Close));
            } else if (b == "tmo-moved") {
                st.push_back(httpw::send_step(req("/tmomoved/" + std::to_string(50 + delay / 1000000) + "/" + tag)));
                st.push_back(httpw::step(Step::Await, kAwait, 1));
                st.push_back(httpw::step(Step::Close));
            } else if (b == "tmo-then-close" || b == "tmo-then-abort") {
                // the handler keeps the writer with an armed time-out; the client is gone before the time-out fires
                st.push_back(httpw::send_step(req("/tmo/" + std::to_string(100 + delay / 1000000) + "/" + tag)));
                st.push_back(httpw::step(Step::Pause, 1000000 + delay / 4));
                st.push_back(httpw::step(b == "tmo-then-close" ? Step::Close : Step::Abort));
            } else if (b == "tmo") {
                st.push_back(httpw::send_step(req("/tmo/" + std::to_string(50 + delay / 1000000) + "/" + tag)));
                st.push_back(httpw::step(Step::Await, kAwait, 1));
                st.push_back(httpw::step(Step::Close));
            } else if (b == "tmoreply") {
                for (int k = 0; k < nreq; ++k) {
                    st.push_back(httpw::send_step(req("/tmoreply/" + std::to_string(500) + "/" + tag)));
                    st.push_back(httpw::step(Step::Await, kAwait, k + 1));
                }
                st.push_back(httpw::step(Step::Close));
            } else if (b == "file") {
                st.push_back(httpw::send_step(req("/file/" + tag)));
                st.push_back(httpw::step(Step::Await, kAwait, 1));
                st.push_back(httpw::step(Step::Close));
            } else if (b == "file-abort") {
                st.push_back(httpw::step(Step::StopReading));
                st.push_back(httpw::send_step(req("/file/" + tag)));
                st.push_back(httpw::step(Step::Pause, delay + 3000000));
                st.push_back(httpw::step(Step::Abort));
            } else if (b == "async-abort" || b == "async-close") {
                st.push_back(httpw::send_step(req("/async/" + std::to_string(size) + "/" + tag)));
                st.push_back(httpw::step(Step::Pause, c.has("leave_at_us") ? c.num("leave_at_us") * 1000 : delay / 10));
                st.push_back(httpw::step(b == "async-abort" ? Step::Abort : Step::Close));
            } else if (b == "never-close") {
                st.push_back(httpw::send_step(req("/never/" + tag)));
                st.push_back(httpw::step(Step::Pause, delay));
                st.push_back(httpw::step(Step::Close));
            } else { // stream
                st.push_back(httpw::send_step(req("/stream/3/" + std::to_string(std::min<long>(size, 5000) + 1) + "/" + tag)));
                st.push_back(httpw::step(Step::Await, kAwait, 1));
                st.push_back(httpw::step(Step::Close));
            }
            auto cl = std::make_shared<actors::Client>(static_cast<int>(all.size()), port, st);
            cl->custom_net = true;
            cl->parse_http = http;
            cl->from_server.sndbuf = static_cast<size_t>(std::max<i64>(64, c.num("sndbuf", 65536)));
            cl->from_server.rcvbuf = cl->from_server.sndbuf;
            cl->from_server.mss = std::min<size_t>(1460, cl->from_server.rcvbuf);
            cl->start(c.num("start_us", 0) * 1000);
            round_clients.push_back(cl);
            all.push_back({ b, cl, b == "tmo-park" && c.num("warmup_us", 0) > 0 });
        }
        const std::function<bool()> round_done = [&] {
            for (auto& c : round_clients)
                if (!c->finished()) return false;
            return true;
        };
        scen::wait_for(round_done, (std::max(hto, bto) + 10000) * 1000000LL, "driver.wait-round");
        for (auto& c : round_clients)
            if (c->sock && !c->st.closed_by_us) {
                c->sock->close();
                c->st.closed_by_us = true;
            }
    }
    // everything has been closed by the clients; give the server the longest time-out plus the scan period
    sim::sleep_ns((std::max(hto, bto) + 1500) * 1000000LL);

    // ---- oracles
    // (1) callback sequence per accepted connection
    const auto& ss = simk::sock_stats();
    auto beh_of = [&](int conn_id) -> std::string {
        for (auto& cp : all)
            if (cp.client->sock && cp.client->sock->id() == conn_id) return cp.behaviour;
        return "unknown";
    };
    if (http) {
        std::map<int, int> dcount;
        for (auto& d : hw.disconnects) dcount[d.conn_ord]++;
        for (auto& rq : hw.requests)
            if (rq.after_disconnect) r.violation("C08.callbacks:request-after-disconnection", "the handler received a request (" + rq.resource + ") on a connection after it had been told of its disconnection");
        for (auto& s : ss) {
            int n = dcount.count(s.ordinal) ? dcount[s.ordinal] : 0;
            std::string beh = beh_of(s.conn_id);
            if (n == 0) r.violation("C08.callbacks:disconnection-not-notified:" + beh, "accepted connection #" + std::to_string(s.ordinal) + " (fd " + std::to_string(s.fd) + ", client behaviour " + beh + ") is gone but the handler was never told of its disconnection");
            if (n > 1) r.violation("C08.callbacks:disconnection-notified-twice:" + beh, "handler told " + std::to_string(n) + " times of the disconnection of connection #" + std::to_string(s.ordinal) + " (client behaviour " + beh + ")");
        }
    } else {
        for (auto& s : ss) {
            std::string q = tw.seq.count(s.ordinal) ? tw.seq[s.ordinal] : "";
            bool ok = q == "CD" || q == "CID";
            // 'I' entries are collapsed, so the legal sequences are C I? D
            if (!ok) {
                std::string why = q.empty() ? "no callback at all" : q.find('D') == std::string::npos ? "no onDisconnection" : q.find("DI") != std::string::npos ? "onInput after onDisconnection" : "unbalanced";
                r.violation(std::string("C08.callbacks:sequence:") + (q.find('D') == std::string::npos ? "no-disconnection" : q.find("DI") != std::string::npos ? "input-after-disconnection" : "unbalanced") + ":" + beh_of(s.conn_id),
                            "connection #" + std::to_string(s.ordinal) + " (client behaviour " + beh_of(s.conn_id) + ") saw the callback sequence '" + q + "' (" + why + "); expected onConnection onInput* onDisconnection");
            }
        }
    }
    // (1b) a connection that stays silent is ended by the idle time-out: the server, not the client, closes it
    if (http)
        for (auto& cp : all) {
            if (cp.behaviour != "silence" && cp.behaviour != "partial-then-silence") continue;
            auto& stc = cp.client->st;
            if (!stc.connected) continue;
            bool by_server = (stc.peer_fin && stc.fin_at >= 0 && stc.fin_at <= stc.connected_at + (std::max(hto, bto) + 1500) * 1000000LL)
                             || (stc.reset && stc.reset_at >= 0 && stc.reset_at <= stc.connected_at + (std::max(hto, bto) + 1500) * 1000000LL);
            if (!by_server)
                r.violation("C08.idle:silent-connection-not-released-by-the-idle-time-out:" + cp.behaviour, "a connection that sent " + std::string(cp.behaviour == "silence" ? "nothing" : "part of a request") + " and then stayed silent was still held by the server " + std::to_string(std::max(hto, bto) + 1500) + " ms after it was accepted (time-outs " + std::to_string(hto) + "/" + std::to_string(bto) + " ms); only the client's own close released it");
        }
    // (1c) a request parked with an armed response time-out is answered: by whoever completes it, or by the time-out
    if (http)
        for (auto& cp : all) {
            if (cp.behaviour != "tmo-park" || !cp.client->st.connected || cp.client->reader.broken) continue;
            if (cp.client->responses() < (cp.warm ? 2u : 1u))
                r.violation("C08.timer:armed-time-out-never-fired:tmo-park", "a request whose handler armed the response time-out and parked the response was answered neither by the handler nor by the time-out (the armed timer was lost)");
        }
    // (2) every descriptor released exactly once
    for (auto& a : simk::anomalies()) {
        if (a.kind == "close.ebadf" || a.kind == "close.untracked") r.violation("C08.release:descriptor-closed-twice", a.detail);
        else if (a.kind.find("epoll_ctl") == 0) r.violation("C08.release:epoll-registration-of-a-released-descriptor", a.kind + ": " + a.detail);
        else if (a.kind.find(".ebadf") != std::string::npos) r.violation("C08.release:use-after-close", a.kind + ": " + a.detail);
    }
    // (3) census back at the idle baseline
    auto now = simk::census();
    for (auto& kv : now) {
        int base = baseline.count(kv.first) ? baseline[kv.first] : 0;
        if (kv.second > base) r.violation("C08.leak:" + kv.first, std::to_string(kv.second - base) + " " + kv.first + " descriptor(s) still open after all clients were gone and every time-out had elapsed (baseline " + std::to_string(base) + ", now " + std::to_string(kv.second) + ")");
    }
    // peers released
    // (Which thread lets go of a kept ResponseWriter, and which thread looks at a weak_ptr, is the harness's choice, not
    // Pistache's: both are done inside an ignore scope so that ThreadSanitizer judges the framework's threads only. That
    // Timeout's timer continuation writes into the application-owned Timeout object from the worker thread is part of the
    // recorded Timeout finding.)
    if (http) {
        sim::IgnoreScope ig;
        {
            std::lock_guard<std::mutex> g(hw.held_mtx);
            hw.held.clear();
        }
        int alive = 0;
        for (auto& wp : hw.peers)
            if (!wp.expired()) alive++;
        if (alive) r.violation("C08.leak:peer", std::to_string(alive) + " peer object(s) still referenced by the framework after their connections were gone");
    } else {
        sim::IgnoreScope ig;
        int alive = 0;
        for (auto& wp : tw.peers)
            if (!wp.expired()) alive++;
        if (alive) r.violation("C08.leak:peer", std::to_string(alive) + " peer object(s) still referenced by the framework after their connections were gone");
    }
    // (4) a fresh connection is still served
    {
        using actors::Step;
        std::vector<Step> st { httpw::step(Step::Connect), httpw::send_step(http ? actors::http_request("GET", "/echo/fresh", { { "Host", "sim" } }, "") : std::string("get 10\n")),
                               http ? httpw::step(Step::Await, 2000LL * 1000000LL, 1) : httpw::step(Step::AwaitBytes, 2000LL * 1000000LL, 10), httpw::step(Step::Close) };
        auto fresh = std::make_shared<actors::Client>(999, port, st);
        fresh->start(0);
        const std::function<bool()> done = [&] { return fresh->finished(); };
        scen::wait_for(done, 5000LL * 1000000LL, "driver.fresh");
        bool served = http ? fresh->responses() == 1 && fresh->reader.done[0].status == 200 : fresh->received.size() >= 10;
        if (!served) r.violation("C08.liveness:fresh-connection-not-served", "after the rounds a fresh connection was not served");
    }
    r.stats["connections"] = static_cast<i64>(ss.size());
    if (http) hw.stop();
    else {
        listener->shutdown();
        listener.reset();
    }
}

// One connection whose handler arms the response time-out and then moves the ResponseWriter (hands it to another
// context). Kept apart from the main workload because the process dies on it (see known_findings.json).
Json gen_moved(sim::Rng& rng, int)
{
    Json p = Json::object();
    p["mode"] = "http";
    p["workers"] = 1;
    p["header_timeout_ms"] = 2000;
    p["body_timeout_ms"] = 2000;
    Json c = Json::object();
    c["behaviour"] = "tmo-moved";
    c["tag"] = static_cast<long long>(100000 + rng.below(1000));
    c["delay_us"] = static_cast<int>(rng.below(20000));
    c["start_us"] = static_cast<int>(rng.below(3000));
    Json conns = Json::array();
    conns.push(c);
    Json rounds = Json::array();
    rounds.push(conns);
    p["rounds"] = rounds;
    gen_sched(rng, p, 2000);
    return p;
}
Scenario scm { "c08_moved_timeout", "C08", "handler arms the response time-out, then moves the ResponseWriter", gen_moved, run };
Registrar regm(&scm);

Scenario sc { "c08_lifecycle", "C08", "rounds of connections with drawn client behaviours against Http::Endpoint / raw Tcp::Listener; callbacks, release, census", gen, run };
Registrar reg(&sc);

} // namespace
