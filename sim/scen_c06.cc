// C06 — queued writes reach the peer completely, in order and exactly once.
// C07 — a peer that cannot be written to does not stall the other connections.
//
// System under test: the real Tcp::Listener + reactor + Tcp::Transport with a harness
// Tcp::Handler that understands one-line commands:
//     w <size> <tag> <raw|file> <loop|app>\n
// For every command the handler issues one asynchronous write of a payload in which every
// byte is attributable to (tag, offset) — from the event-loop thread (inside onInput) or from
// a separate application thread. Clients are scripted actors on simulated sockets whose
// buffer sizes, segment sizes, latencies and reading behaviour are drawn per connection; the
// simulated kernel decides every send/sendfile result (full, short, would-block).
#include <pistache/listener.h>
#include <pistache/peer.h>
#include <pistache/tcp.h>
#include <pistache/transport.h>

#include <deque>
#include <mutex>
#include <thread>

#include <sys/stat.h>
#include <unistd.h>

#include "actors.h"
#include "scenario.h"

using namespace scen;
using namespace Pistache;
using sim::i64;
using sim::u64;

namespace {

struct WriteRec {
    int conn_fd = -1;
    int conn_ord = -1;      // ordinal of the server-side socket
    u64 tag = 0;
    size_t size = 0;
    bool file = false;
    bool from_app = false;
    u64 call_seq = 0, ret_seq = 0;
    int fulfilled = 0, rejected = 0;
    long value = -1;
    u64 accepted_at_settle = 0;
    i64 settled_at = -1;
    // filled by the oracle
    long stream_pos = -1;
};

struct Job {
    std::shared_ptr<Tcp::Peer> peer;
    Tcp::Transport* transport;
    WriteRec* rec;
};

struct World {
    std::deque<WriteRec> writes; // deque: stable addresses
    u64 seq = 0;
    std::map<int, std::string> linebuf; // per fd
    std::map<int, int> fd_to_ord;
    int connections = 0, disconnections = 0;
    std::string scratch;
    // application thread
    std::mutex jobs_mtx;
    std::deque<Job> jobs;
    bool stop_app = false;
    i64 app_delay_ns = 0;
    int cmd_errors = 0;

    std::string file_for(u64 tag) const { return scratch + "/f" + std::to_string(tag); }

    void do_write(const std::shared_ptr<Tcp::Peer>& peer, Tcp::Transport* tr, WriteRec* wr)
    {
        int fd = peer->fd();
        {
            sim::IgnoreScope ig;
            wr->call_seq = ++seq;
        }
        auto on_ok = [wr, fd](ssize_t n) {
            sim::IgnoreScope ig;
            wr->fulfilled++;
            wr->value = static_cast<long>(n);
            wr->settled_at = sim::now_ns();
            for (auto& s : simk::sock_stats())
                if (s.fd == fd && !s.closed) wr->accepted_at_settle = s.bytes_accepted;
        };
        auto on_err = [wr](std::exception_ptr) {
            sim::IgnoreScope ig;
            wr->rejected++;
            wr->settled_at = sim::now_ns();
        };
        if (wr->file) {
            tr->asyncWrite(fd, FileBuffer(file_for(wr->tag))).then(on_ok, on_err);
        } else {
            std::string data = actors::pattern(wr->tag, wr->size);
            peer->send(RawBuffer(data, data.size())).then(on_ok, on_err);
        }
        sim::IgnoreScope ig;
        wr->ret_seq = ++seq;
    }
};

class CmdHandler : public Tcp::Handler {
public:
    PROTOTYPE_OF(Tcp::Handler, CmdHandler)
    explicit CmdHandler(World* w) : w_(w) { }
    CmdHandler(const CmdHandler& o) : Tcp::Handler(), w_(o.w_) { }

    void onConnection(const std::shared_ptr<Tcp::Peer>& peer) override
    {
        sim::IgnoreScope ig;
        w_->connections++;
        int fd = peer->fd();
        w_->linebuf[fd].clear();
        for (auto& s : simk::sock_stats())
            if (s.fd == fd && !s.closed) w_->fd_to_ord[fd] = s.ordinal;
    }
    void onDisconnection(const std::shared_ptr<Tcp::Peer>& peer) override
    {
        sim::IgnoreScope ig;
        w_->disconnections++;
        w_->linebuf.erase(peer->fd());
    }
    void onInput(const char* buffer, size_t len, const std::shared_ptr<Tcp::Peer>& peer) override
    {
        std::vector<std::string> lines;
        int fd = peer->fd();
        {
            sim::IgnoreScope ig;
            std::string& lb = w_->linebuf[fd];
            lb.append(buffer, len);
            size_t p;
            while ((p = lb.find('\n')) != std::string::npos) {
                lines.push_back(lb.substr(0, p));
                lb.erase(0, p + 1);
            }
        }
        for (auto& line : lines) {
            unsigned long long size = 0, tag = 0;
            char kind[8] = { 0 }, from[8] = { 0 };
            if (!line.empty() && line[0] == 'n') continue; // no-op input: the handler issues no write for it
            if (sscanf(line.c_str(), "w %llu %llu %7s %7s", &size, &tag, kind, from) != 4) {
                sim::IgnoreScope ig;
                w_->cmd_errors++;
                continue;
            }
            WriteRec* wr;
            {
                sim::IgnoreScope ig;
                w_->writes.emplace_back();
                wr = &w_->writes.back();
                wr->conn_fd = fd;
                wr->conn_ord = w_->fd_to_ord.count(fd) ? w_->fd_to_ord[fd] : -1;
                wr->tag = tag;
                wr->size = static_cast<size_t>(size);
                wr->file = !strcmp(kind, "file");
                wr->from_app = !strcmp(from, "app");
            }
            if (wr->from_app) {
                std::lock_guard<std::mutex> g(w_->jobs_mtx);
                w_->jobs.push_back(Job { peer, transport(), wr });
            } else {
                w_->do_write(peer, transport(), wr);
            }
        }
    }

private:
    World* w_;
};

// ---- plan generation --------------------------------------------------------------------------
const long kSizes[] = { 0, 8, 17, 100, 512, 1000, 4096, 5000, 16384, 40000, 65536, 100000, 262144 };

Json gen_net(sim::Rng& rng, bool small_bias)
{
    static const long bufs[] = { 64, 512, 1024, 4096, 4096, 16384, 65536, 65536, 262144 };
    static const long msss[] = { 16, 100, 536, 1460, 1460, 9000, 65536 };
    Json n = Json::object();
    long snd = bufs[rng.below(small_bias ? 6 : 9)];
    long rcv = bufs[rng.below(small_bias ? 6 : 9)];
    long mss = msss[rng.below(7)];
    if (mss > rcv) mss = rcv;
    n["sndbuf"] = snd;
    n["rcvbuf"] = rcv;
    n["mss"] = mss;
    n["latency_us"] = static_cast<long>(5 + rng.below(400));
    n["jitter_us"] = static_cast<long>(rng.below(100));
    return n;
}

Json gen_cmds(sim::Rng& rng, int maxn, u64& tag, long size_cap)
{
    Json cmds = Json::array();
    int n = static_cast<int>(rng.range(1, maxn));
    // now and then a long run of small writes on one connection: more entries queued at once than any batch size
    const bool many = maxn >= 5 && rng.chance(0.04);
    if (many) n = static_cast<int>(70 + rng.below(90));
    for (int i = 0; i < n; ++i) {
        Json c = Json::object();
        long sz = kSizes[rng.below(sizeof kSizes / sizeof kSizes[0])];

        if (rng.chance(0.3)) sz = static_cast<long>(rng.below(static_cast<u64>(size_cap) + 1));
        if (many) sz = static_cast<long>(rng.below(rng.chance(0.9) ? 96 : 3000));
        if (sz > size_cap) sz = size_cap;
        if (sz > 0 && sz < 8) sz = 8;
        c["size"] = sz;
        c["tag"] = static_cast<long long>(++tag);
        c["file"] = sz > 0 && rng.chance(0.2);
        c["app"] = rng.chance(0.3);
        c["newline_gap_us"] = rng.chance(0.6) ? 0 : static_cast<long>(rng.below(2000)); // 0: commands travel in one segment
        if (many) {
            c["file"] = sz > 0 && rng.chance(0.03);
            c["newline_gap_us"] = rng.chance(0.9) ? 0 : static_cast<long>(rng.below(300));
        }
        cmds.push(c);
    }
    return cmds;
}

Json gen_faults(sim::Rng& rng, bool allow)
{
    Json f = Json::object();
    if (allow && rng.chance(0.5)) f["short_write_permille"] = static_cast<int>(rng.below(300));
    if (allow && rng.chance(0.3)) f["eagain_permille"] = static_cast<int>(rng.below(100));
    if (allow && rng.chance(0.3)) f["eintr_permille"] = static_cast<int>(rng.below(100));
    if (allow && rng.chance(0.3)) f["short_read_permille"] = static_cast<int>(rng.below(300));
    if (allow && rng.chance(0.3)) {
        Json caps = Json::array();
        int n = static_cast<int>(rng.range(1, 4));
        for (int i = 0; i < n; ++i) {
            Json c = Json::object();
            c["conn"] = static_cast<int>(rng.below(3));
            c["call"] = static_cast<int>(rng.below(6));
            c["cap"] = rng.chance(0.4) ? 0L : static_cast<long>(1 + rng.below(5000));
            caps.push(c);
        }
        f["caps"] = caps;
    }
    return f;
}

Json gen_c06_cap(sim::Rng& rng, int tier, long size_cap);
Json gen_c06(sim::Rng& rng, int tier) { return gen_c06_cap(rng, tier, 262144); }
// same workload with buffers capped at 12 KiB and correspondingly small socket buffers: used in the sanitizer builds,
// where copying large buffers dominates the run time
Json gen_c06_small(sim::Rng& rng, int tier) { return gen_c06_cap(rng, tier, 12288); }

Json gen_c06_cap(sim::Rng& rng, int tier, long size_cap)
{
    Json p = Json::object();
    p["workers"] = static_cast<int>(rng.range(1, 2));
    p["app_delay_us"] = rng.chance(0.5) ? 0 : static_cast<long>(rng.below(3000));
    u64 tag = 0x100000 + rng.below(0x100000);
    Json conns = Json::array();
    int nc = static_cast<int>(rng.range(1, tier ? 3 : 2));
    for (int i = 0; i < nc; ++i) {
        Json c = Json::object();
        c["net"] = gen_net(rng, true);
        if (size_cap < 100000) {
            Json& net = c["net"];
            net["sndbuf"] = std::min<long>(static_cast<long>(net.num("sndbuf")), 1024);
            net["rcvbuf"] = std::min<long>(static_cast<long>(net.num("rcvbuf")), 1024);
            net["mss"] = std::min<long>(static_cast<long>(net.num("mss")), static_cast<long>(net.num("rcvbuf")));
        }
        c["cmds"] = gen_cmds(rng, tier ? 8 : 5, tag, size_cap);
        if (rng.chance(0.5)) {
            long burst = static_cast<long>(1 + rng.below(20000));
            long total = 0;
            for (size_t k = 0; k < c.get("cmds").size(); ++k) total += static_cast<long>(c.get("cmds").at(k).num("size"));
            long max_iv = static_cast<long>(2000000.0 * static_cast<double>(burst) / static_cast<double>(total + 1));
            c["read_burst"] = burst;
            c["read_interval_us"] = static_cast<long>(rng.below(static_cast<u64>(std::min<long>(3000, std::max<long>(1, max_iv)))));
        }
        if (rng.chance(0.4)) { // the reader pauses for a while after sending its commands
            c["stall_ms"] = static_cast<long>(1 + rng.below(40));
        }
        c["start_us"] = static_cast<long>(rng.below(2000));
        if (rng.chance(0.4)) { // input that triggers no write keeps arriving while writes are pending
            c["chatter_us"] = static_cast<long>(50 + rng.below(3000));
            c["chatter_count"] = static_cast<int>(1 + rng.below(40));
            if (rng.chance(0.25)) { // ... in bulk: tens of KB that the worker reads in many receive calls per wake-up
                c["chatter_bulk"] = static_cast<long>(4000 + rng.below(44000));
                c["chatter_count"] = static_cast<int>(1 + rng.below(6));
            }
        }
        conns.push(c);
    }
    p["conns"] = conns;
    p["faults"] = gen_faults(rng, true);
    gen_sched(rng, p, 3000);
    // The step budget exists to end runs that spin. Moving a megabyte through a 64-byte socket buffer in 16-byte
    // segments legitimately takes several hundred thousand decision points, so the budget follows the work.
    {
        double segments = 0;
        for (size_t i = 0; i < conns.size(); ++i) {
            const Json& net = conns.at(i).get("net");
            double unit = static_cast<double>(std::max<i64>(16, std::min<i64>(std::min<i64>(net.num("sndbuf", 65536), net.num("rcvbuf", 65536)), net.num("mss", 1460))));
            for (size_t k = 0; k < conns.at(i).get("cmds").size(); ++k) segments += static_cast<double>(conns.at(i).get("cmds").at(k).num("size")) / unit + 1;
        }
        p["sched"]["max_steps"] = static_cast<long long>(400000 + 40.0 * segments);
    }
    return p;
}

Json gen_c07(sim::Rng& rng, int tier)
{
    Json p = Json::object();
    p["workers"] = 1;
    p["app_delay_us"] = 0;
    p["c07"] = true;
    u64 tag = 0x100000 + rng.below(0x100000);
    Json conns = Json::array();
    // connection A: responses larger than its buffers, reader stalls
    {
        Json c = Json::object();
        Json net = gen_net(rng, true);
        c["net"] = net;
        Json cmds = Json::array();
        int n = static_cast<int>(rng.range(1, 4));
        long cap = net.num("sndbuf") + net.num("rcvbuf");
        for (int i = 0; i < n; ++i) {
            Json cm = Json::object();
            cm["size"] = cap + static_cast<long>(1000 + rng.below(200000));
            cm["tag"] = static_cast<long long>(++tag);
            cm["file"] = rng.chance(0.15);
            cm["app"] = rng.chance(0.2);
            cm["newline_gap_us"] = 0;
            cmds.push(cm);
        }
        c["cmds"] = cmds;
        c["stall_ms"] = static_cast<long>(200 + rng.below(tier ? 3000 : 1500));
        c["start_us"] = 0;
        // the stalled connection may go on sending input that asks for nothing while it does not read - a little now and then, or in bulk
        if (rng.chance(0.5)) {
            c["chatter_us"] = static_cast<long>(1000 + rng.below(200000));
            c["chatter_count"] = static_cast<int>(1 + rng.below(8));
            if (rng.chance(0.5)) c["chatter_bulk"] = static_cast<long>(4000 + rng.below(60000));
        }
        conns.push(c);
    }
    int nb = static_cast<int>(rng.range(1, 3));
    for (int i = 0; i < nb; ++i) {
        Json c = Json::object();
        Json net = Json::object();
        net["sndbuf"] = 65536L;
        net["rcvbuf"] = 65536L;
        net["mss"] = 1460L;
        net["latency_us"] = static_cast<long>(5 + rng.below(200));
        net["jitter_us"] = static_cast<long>(rng.below(50));
        c["net"] = net;
        Json cmds = Json::array();
        int n = static_cast<int>(rng.range(1, 3));
        for (int k = 0; k < n; ++k) {
            Json cm = Json::object();
            cm["size"] = static_cast<long>(8 + rng.below(300));
            cm["tag"] = static_cast<long long>(++tag);
            cm["file"] = false;
            cm["app"] = false;
            cm["newline_gap_us"] = static_cast<long>(rng.below(50000)); // spread over the stall
            cmds.push(cm);
        }
        c["cmds"] = cmds;
        c["neighbour"] = true;
        c["start_us"] = static_cast<long>(rng.below(100000)); // before, during and after the first would-block
        conns.push(c);
    }
    p["conns"] = conns;
    p["faults"] = Json::object();
    gen_sched(rng, p, 5000);
    return p;
}

// ---- execution ------------------------------------------------------------------------------------
simk::NetParams net_from(const Json& j)
{
    simk::NetParams n;
    n.sndbuf = static_cast<size_t>(std::max<i64>(1, j.num("sndbuf", 65536)));
    n.rcvbuf = static_cast<size_t>(std::max<i64>(1, j.num("rcvbuf", 65536)));
    n.mss = static_cast<size_t>(std::max<i64>(1, j.num("mss", 1460)));
    if (n.mss > n.rcvbuf) n.mss = n.rcvbuf;
    n.latency_ns = std::max<i64>(1, j.num("latency_us", 50)) * 1000;
    n.jitter_ns = std::max<i64>(0, j.num("jitter_us", 0)) * 1000;
    return n;
}

void run(const Json& plan)
{
    sim::Recorder& r = sim::rec();
    const bool c07 = plan.flag("c07");
    const char* P = c07 ? "C07" : "C06";
    World w;
    w.app_delay_ns = plan.num("app_delay_us", 0) * 1000;
    w.scratch = scen::scratch_root() + "/" + std::to_string(getpid());
    mkdir(w.scratch.c_str(), 0755);

    const Json& jf = plan.get("faults");
    simk::Faults& F = simk::faults();
    F.short_write_p = static_cast<double>(jf.num("short_write_permille", 0)) / 1000.0;
    F.eagain_p = static_cast<double>(jf.num("eagain_permille", 0)) / 1000.0;
    F.epoll_eintr_p = static_cast<double>(jf.num("eintr_permille", 0)) / 1000.0;
    F.short_read_p = static_cast<double>(jf.num("short_read_permille", 0)) / 1000.0;
    const Json& caps = jf.get("caps");
    for (size_t i = 0; i < caps.size(); ++i)
        F.send_caps.push_back({ static_cast<int>(caps.at(i).num("conn", -1)), static_cast<int>(caps.at(i).num("call", 0)), static_cast<long>(caps.at(i).num("cap", 0)) });

    // scratch files for file writes
    const Json& conns = plan.get("conns");
    std::vector<std::string> files;
    for (size_t i = 0; i < conns.size(); ++i) {
        const Json& cmds = conns.at(i).get("cmds");
        if (cmds.size() >= 70) r.probe("many-small-writes-on-one-connection");
        for (size_t k = 0; k < cmds.size(); ++k) {
            if (!cmds.at(k).flag("file")) continue;
            u64 tag = static_cast<u64>(cmds.at(k).num("tag"));
            std::string path = w.file_for(tag);
            FILE* f = fopen(path.c_str(), "w");
            if (f) {
                std::string data = actors::pattern(tag, static_cast<size_t>(cmds.at(k).num("size")));
                fwrite(data.data(), 1, data.size(), f);
                fclose(f);
                files.push_back(path);
            }
        }
    }

    const int port = 9080;
    int workers = std::max(1, std::min(4, static_cast<int>(plan.num("workers", 1))));
    auto listener = std::make_unique<Tcp::Listener>(Address("127.0.0.1", Port(port)));
    listener->init(static_cast<size_t>(workers), Flags<Tcp::Options>(Tcp::Options::None));
    listener->setHandler(std::make_shared<CmdHandler>(&w));
    listener->bind();
    listener->runThreaded();

    std::thread app([&] {
        sim::set_self_name("app");
        for (;;) {
            const std::function<bool()> pred = [&] { return w.stop_app || !w.jobs.empty(); };
            sim::block_until(pred, -1, "app.wait");
            Job job;
            {
                std::lock_guard<std::mutex> g(w.jobs_mtx);
                if (w.jobs.empty()) {
                    if (w.stop_app) return;
                    continue;
                }
                job = w.jobs.front();
                w.jobs.pop_front();
            }
            if (w.app_delay_ns > 0) sim::sleep_ns(w.app_delay_ns);
            w.do_write(job.peer, job.transport, job.rec);
        }
    });

    // clients
    std::vector<std::shared_ptr<actors::Client>> clients;
    std::vector<size_t> expected_bytes;
    i64 max_stall_ns = 0, max_wait_ns = 0;
    for (size_t i = 0; i < conns.size(); ++i) {
        const Json& c = conns.at(i);
        std::vector<actors::Step> steps;
        actors::Step st;
        st.kind = actors::Step::Connect;
        steps.push_back(st);
        i64 stall = c.num("stall_ms", 0) * 1000000LL;
        max_stall_ns = std::max(max_stall_ns, stall);
        if (stall > 0) {
            st = actors::Step();
            st.kind = actors::Step::StopReading;
            steps.push_back(st);
        }
        const Json& cmds = c.get("cmds");
        size_t total = 0;
        std::string batch;
        for (size_t k = 0; k < cmds.size(); ++k) {
            const Json& cm = cmds.at(k);
            size_t sz = static_cast<size_t>(std::max<i64>(0, cm.num("size")));
            total += sz;
            batch += "w " + std::to_string(sz) + " " + std::to_string(cm.num("tag")) + " " + (cm.flag("file") ? "file" : "raw") + " " + (cm.flag("app") ? "app" : "loop") + "\n";
            i64 gap = cm.num("newline_gap_us", 0) * 1000;
            if (gap > 0 || k + 1 == cmds.size()) {
                st = actors::Step();
                st.kind = actors::Step::Send;
                st.data = batch;
                batch.clear();
                steps.push_back(st);
                if (gap > 0 && k + 1 < cmds.size()) {
                    st = actors::Step();
                    st.kind = actors::Step::Pause;
                    st.dur_ns = gap;
                    steps.push_back(st);
                }
            }
        }
        if (stall > 0) {
            st = actors::Step();
            st.kind = actors::Step::Pause;
            st.dur_ns = stall;
            steps.push_back(st);
            st = actors::Step();
            st.kind = actors::Step::ResumeReading;
            steps.push_back(st);
        }
        st = actors::Step();
        st.kind = actors::Step::AwaitBytes;
        st.n = static_cast<int>(total);
        // bounded liveness: 20 simulated seconds beyond three times what the reader's own pace needs
        i64 burst = std::max<i64>(0, c.num("read_burst", 0)), interval = std::max<i64>(1, c.num("read_interval_us", 0)) * 1000;
        i64 pace_ns = burst > 0 ? static_cast<i64>(total / static_cast<size_t>(burst) + 1) * interval : 0;
        st.dur_ns = 20LL * 1000000000LL + 3 * pace_ns;
        max_wait_ns = std::max(max_wait_ns, st.dur_ns);
        steps.push_back(st);
        auto cl = std::make_shared<actors::Client>(static_cast<int>(i), port, steps);
        cl->custom_net = true;
        cl->parse_http = false;
        cl->from_server = net_from(c.get("net"));
        cl->to_server = simk::NetParams();
        cl->to_server.latency_ns = cl->from_server.latency_ns;
        cl->to_server.jitter_ns = cl->from_server.jitter_ns;
        cl->read_burst = static_cast<size_t>(std::max<i64>(0, c.num("read_burst", 0)));
        cl->read_interval_ns = c.num("read_interval_us", 0) * 1000;
        cl->chatter_ns = std::max<i64>(0, c.num("chatter_us", 0)) * 1000;
        cl->chatter_count = static_cast<int>(std::max<i64>(0, std::min<i64>(200, c.num("chatter_count", 0))));
        cl->chatter_data = "n\n";
        if (c.num("chatter_bulk", 0) > 2) {
            cl->chatter_data = "n" + std::string(static_cast<size_t>(std::min<i64>(c.num("chatter_bulk", 0), 100000)) - 2, 'x') + "\n";
            if (cl->chatter_ns > 0 && cl->chatter_count > 0) r.probe("bulk-input-without-write-while-writes-pending");
        }
        if (cl->chatter_ns > 0 && cl->chatter_count > 0) r.probe("input-without-write-while-writes-pending");
        cl->start(c.num("start_us", 0) * 1000);
        clients.push_back(cl);
        expected_bytes.push_back(total);
    }

    bool spin = false;
    const std::function<bool()> all_done = [&] {
        for (auto& a : simk::anomalies())
            if (a.kind == "send.eagain-spin" || a.kind == "epoll.idle-spin") {
                spin = true;
                return true;
            }
        for (auto& c : clients)
            if (!c->finished()) return false;
        return true;
    };
    bool finished = scen::wait_for(all_done, max_stall_ns + max_wait_ns + 10LL * 1000000000LL, "driver.wait-clients");
    if (spin) {
        for (auto& a : simk::anomalies()) {
            if (a.kind == "send.eagain-spin")
                sim::fatal("violation", "C07.busy-wait:eagain-spin", "the worker keeps calling send() on a socket that returns EAGAIN without going back to epoll_wait: " + a.detail);
            if (a.kind == "epoll.idle-spin")
                sim::fatal("violation", "C07.busy-wait:idle-wakeups", "the worker is woken over and over although nothing can make progress: " + a.detail);
        }
    }
    // let promises of the last writes settle
    const std::function<bool()> settled = [&] {
        for (auto& wr : w.writes)
            if (wr.fulfilled + wr.rejected == 0) return false;
        return true;
    };
    bool all_settled = finished && scen::wait_for(settled, 2LL * 1000000000LL, "driver.wait-promises");

    // ---- oracles (before shutdown, while the connections are still open)
    size_t ci = 0;
    for (auto& cl : clients) {
        const Json& c = conns.at(ci);
        std::string who = std::string("connection ") + std::to_string(ci) + (c.flag("neighbour") ? " (neighbour)" : "");
        // 1. the byte stream is a concatenation of whole buffers, each exactly once
        std::vector<WriteRec*> mine;
        int ord = -1;
        int sfd = cl->server_fd();
        for (auto& wr : w.writes)
            if (sfd >= 0 && wr.conn_fd == sfd) {
                mine.push_back(&wr);
                ord = wr.conn_ord;
            }
        (void)ord;
        const std::string& got = cl->received;
        size_t pos = 0;
        std::vector<bool> used(mine.size(), false);
        std::vector<WriteRec*> order;
        bool stream_ok = true;
        while (pos < got.size()) {
            bool matched = false;
            for (size_t k = 0; k < mine.size(); ++k) {
                if (used[k] || mine[k]->size == 0) continue;
                std::string pat = actors::pattern(mine[k]->tag, mine[k]->size);
                size_t cmp = std::min(pat.size(), got.size() - pos);
                if (got.compare(pos, cmp, pat, 0, cmp) == 0) {
                    if (cmp < pat.size()) { // truncated tail of the stream: incomplete buffer
                        matched = true;
                        used[k] = true;
                        mine[k]->stream_pos = static_cast<long>(pos);
                        order.push_back(mine[k]);
                        pos = got.size();
                        if (cl->finished() && finished)
                            r.violation(std::string(P) + ".stream:buffer-incomplete", who + ": write tag " + std::to_string(mine[k]->tag) + " of " + std::to_string(pat.size()) + " bytes arrived only up to byte " + std::to_string(cmp));
                        break;
                    }
                    matched = true;
                    used[k] = true;
                    mine[k]->stream_pos = static_cast<long>(pos);
                    order.push_back(mine[k]);
                    pos += pat.size();
                    break;
                }
            }
            if (!matched) {
                stream_ok = false;
                r.violation(std::string(P) + ".stream:bytes-not-a-concatenation-of-buffers",
                            who + ": at stream offset " + std::to_string(pos) + " the received bytes (" + got.substr(pos, 32) + "...) are not the start of any not yet delivered buffer");
                break;
            }
        }
        if (stream_ok && finished) {
            size_t want = expected_bytes[ci];
            if (got.size() != want && !cl->st.reset)
                r.violation(std::string(P) + ".stream:bytes-missing", who + ": received " + std::to_string(got.size()) + " of " + std::to_string(want) + " bytes although it stayed connected and kept reading");
        }
        // order consistent with issue order (real-time order of the asyncWrite calls)
        for (size_t a = 0; a < order.size(); ++a)
            for (size_t b = a + 1; b < order.size(); ++b)
                if (order[b]->ret_seq && order[a]->call_seq && order[b]->ret_seq < order[a]->call_seq)
                    r.violation(std::string(P) + ".order:buffers-reordered", who + ": write tag " + std::to_string(order[b]->tag) + " was issued (call returned) before write tag " + std::to_string(order[a]->tag) + " was issued, but arrived after it");
        // 2. promises
        for (WriteRec* wr : mine) {
            std::string ww = who + " write tag " + std::to_string(wr->tag) + " (" + std::to_string(wr->size) + " bytes, " + (wr->file ? "file" : "raw") + (wr->from_app ? ", app thread" : ", loop thread") + ")";
            if (wr->fulfilled + wr->rejected > 1) r.violation(std::string(P) + ".promise:settled-twice", ww + " settled " + std::to_string(wr->fulfilled + wr->rejected) + " times");
            if (wr->fulfilled) {
                if (wr->value != static_cast<long>(wr->size))
                    r.violation(std::string(P) + ".promise:wrong-value", ww + " fulfilled with " + std::to_string(wr->value) + " instead of the buffer's " + std::to_string(wr->size) + " bytes");
                if (wr->stream_pos >= 0 && wr->accepted_at_settle < static_cast<u64>(wr->stream_pos) + wr->size)
                    r.violation(std::string(P) + ".promise:fulfilled-early", ww + " fulfilled when the socket had accepted " + std::to_string(wr->accepted_at_settle) + " bytes, before its last byte at stream offset " + std::to_string(static_cast<u64>(wr->stream_pos) + wr->size));
            }
            if (finished && !cl->st.reset && wr->fulfilled == 0) {
                if (wr->rejected) r.violation(std::string(P) + ".promise:rejected-although-connected", ww + " was rejected although the peer stayed connected and kept reading");
                else r.violation(std::string(P) + ".liveness:promise-never-fulfilled", ww + " was never fulfilled although the peer stayed connected and read everything");
            }
        }
        if (!cl->finished()) r.violation(std::string(P) + ".liveness:stream-stalled", who + ": the client was still waiting for bytes (" + std::to_string(got.size()) + " of " + std::to_string(expected_bytes[ci]) + ") at the end of the liveness bound");
        // C07: neighbours are answered promptly
        if (c07 && c.flag("neighbour")) {
            // per command: time from the command being sent to its payload being complete
            size_t acc = 0, k = 0;
            const Json& cmds = c.get("cmds");
            for (size_t si = 0; si < cl->st.send_start.size() && k < cmds.size(); ++si, ++k) {
                acc += static_cast<size_t>(cmds.at(k).num("size"));
                (void)acc;
            }
        }
        ci++;
    }
    (void)all_settled;

    // C07 latency: measured with a probe per neighbour response (see below)
    if (c07) {
        size_t idx = 0;
        for (auto& cl : clients) {
            const Json& c = conns.at(idx++);
            if (!c.flag("neighbour")) continue;
            // the neighbour sends its commands one per Send step (gaps > 0 make separate steps; gap 0 batches)
            // completion time of the whole exchange versus the time the last command was sent:
            if (!cl->st.send_done.empty() && cl->finished() && cl->st.finished_at >= 0) {
                i64 last_sent = cl->st.send_done.back();
                i64 lat = cl->st.finished_at - last_sent;
                r.stats["neighbour_latency_max_us"] = std::max<i64>(r.stats["neighbour_latency_max_us"], lat / 1000);
                if (last_sent >= 0 && lat > 100 * 1000000LL)
                    r.violation("C07.latency:neighbour-not-answered-in-time", "neighbour connection " + std::to_string(idx - 1) + " got its last answer " + std::to_string(lat / 1000000) + " ms after sending the request (bound 100 ms) while connection 0 was not reading");
            }
        }
    }

    // reach probes
    u64 eagain = 0, shortw = 0;
    for (auto& s : simk::sock_stats()) {
        eagain += s.send_eagain;
        shortw += s.send_short;
    }
    if (eagain) r.probe("eagain-branch", static_cast<i64>(eagain));
    if (shortw) r.probe("short-write", static_cast<i64>(shortw));
    bool any_app = false, any_file = false;
    for (auto& wr : w.writes) {
        any_app |= wr.from_app;
        any_file |= wr.file;
    }
    if (any_app) r.probe("write-from-foreign-thread");
    if (any_file) r.probe("file-buffer");
    if (any_file && eagain) r.probe("file-buffer-with-would-block");
    r.stats["writes"] = static_cast<i64>(w.writes.size());

    // ---- teardown
    for (auto& cl : clients)
        if (cl->sock && !cl->st.closed_by_us) cl->sock->close();
    {
        std::lock_guard<std::mutex> g(w.jobs_mtx);
        w.stop_app = true;
    }
    app.join();
    sim::sleep_ns(5 * 1000000); // let the server see the closes
    listener->shutdown();
    listener.reset();
    // 4. descriptors opened for file buffers are closed exactly once
    auto cs = simk::census();
    if (cs.count("realfile")) r.violation(std::string(P) + ".fd:file-descriptor-leaked", std::to_string(cs["realfile"]) + " descriptor(s) opened for file buffers were never closed");
    for (auto& a : simk::anomalies())
        if (a.kind == "close.untracked" || a.kind == "sendfile.ebadf") r.violation(std::string(P) + ".fd:file-descriptor-double-close", a.detail);
    for (auto& f : files) unlink(f.c_str());
    rmdir(w.scratch.c_str());
}

Scenario sc06 { "c06_writes", "C06", "queued writes (raw/file, loop/app thread) x short writes and would-block on simulated sockets", gen_c06, run };
Registrar reg06(&sc06);
Scenario sc06s { "c06_small", "C06", "c06_writes with buffers capped at 12 KiB (sanitizer builds)", gen_c06_small, run };
Registrar reg06s(&sc06s);
Scenario sc07 { "c07_stall", "C07", "one connection stops reading while neighbours on the same worker issue requests", gen_c07, run };
Registrar reg07(&sc07);

} // namespace
