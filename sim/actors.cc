// actors.cc — see actors.h
#include "actors.h"

#include <algorithm>
#include <cstdio>
#include <cstring>

namespace actors {

namespace {
    std::string lower(std::string s)
    {
        for (auto& c : s) c = static_cast<char>(std::tolower(static_cast<unsigned char>(c)));
        return s;
    }
    std::string trim(const std::string& s)
    {
        size_t a = 0, b = s.size();
        while (a < b && (s[a] == ' ' || s[a] == '\t')) a++;
        while (b > a && (s[b - 1] == ' ' || s[b - 1] == '\t')) b--;
        return s.substr(a, b - a);
    }
}

// ---- HttpReader --------------------------------------------------------------------------------
void HttpReader::feed(const char* data, size_t len)
{
    if (broken) return;
    buf.append(data, len);
    while (!broken && try_one()) { }
}

bool HttpReader::try_one()
{
    size_t he = buf.find("\r\n\r\n");
    if (he == std::string::npos) {
        if (buf.size() > (1u << 20)) {
            broken = true;
            broken_why = "no end of headers within 1 MiB";
        }
        return false;
    }
    HttpMsg m;
    size_t pos = 0;
    size_t eol = buf.find("\r\n");
    std::string start = buf.substr(0, eol);
    if (requests) {
        size_t s1 = start.find(' '), s2 = start.rfind(' ');
        if (s1 == std::string::npos || s2 == s1) {
            broken = true;
            broken_why = "bad request line: " + start;
            return false;
        }
        m.method = start.substr(0, s1);
        m.target = start.substr(s1 + 1, s2 - s1 - 1);
        m.version = start.substr(s2 + 1);
    } else {
        if (start.compare(0, 5, "HTTP/") != 0 || start.size() < 12) {
            broken = true;
            broken_why = "bad status line: " + start.substr(0, 80);
            return false;
        }
        m.version = start.substr(0, 8);
        m.status = atoi(start.c_str() + 9);
        if (m.status < 100 || m.status > 999) {
            broken = true;
            broken_why = "bad status code: " + start.substr(0, 80);
            return false;
        }
    }
    pos = eol + 2;
    while (pos < he + 2) {
        size_t e = buf.find("\r\n", pos);
        std::string line = buf.substr(pos, e - pos);
        pos = e + 2;
        size_t c = line.find(':');
        if (c == std::string::npos) {
            broken = true;
            broken_why = "header without colon: " + line.substr(0, 80);
            return false;
        }
        m.headers.emplace_back(lower(line.substr(0, c)), trim(line.substr(c + 1)));
    }
    size_t body_start = he + 4;
    std::string te = lower(m.header("transfer-encoding"));
    std::string cl = m.header("content-length");
    size_t total = 0;
    if (te.find("chunked") != std::string::npos) {
        m.chunked = true;
        size_t p = body_start;
        for (;;) {
            size_t e = buf.find("\r\n", p);
            if (e == std::string::npos) return false;
            std::string szs = buf.substr(p, e - p);
            char* endp = nullptr;
            unsigned long sz = strtoul(szs.c_str(), &endp, 16);
            if (endp == szs.c_str()) {
                broken = true;
                broken_why = "bad chunk size: " + szs.substr(0, 40);
                return false;
            }
            p = e + 2;
            if (sz == 0) {
                // trailers (none expected) then CRLF
                if (buf.size() < p + 2) return false;
                if (buf.compare(p, 2, "\r\n") != 0) {
                    broken = true;
                    broken_why = "missing CRLF after last chunk";
                    return false;
                }
                p += 2;
                break;
            }
            if (buf.size() < p + sz + 2) return false;
            m.body.append(buf, p, sz);
            if (buf.compare(p + sz, 2, "\r\n") != 0) {
                broken = true;
                broken_why = "missing CRLF after chunk data";
                return false;
            }
            p += sz + 2;
        }
        total = p;
    } else if (!cl.empty()) {
        char* endp = nullptr;
        unsigned long long n = strtoull(cl.c_str(), &endp, 10);
        if (endp == cl.c_str() || *endp) {
            broken = true;
            broken_why = "bad content-length: " + cl;
            return false;
        }
        if (buf.size() < body_start + n) return false;
        m.body = buf.substr(body_start, n);
        total = body_start + n;
    } else {
        total = body_start;
    }
    m.raw_len = total;
    m.done_at = sim::now_ns();
    if (!requests && m.status >= 100 && m.status < 200) {
        // an interim response (100 Continue, 103 Early Hints) has no body and is followed by the final response
        total = body_start;
        interim++;
        buf.erase(0, total);
        consumed += total;
        return !buf.empty();
    }
    done.push_back(std::move(m));
    buf.erase(0, total);
    consumed += total;
    return !buf.empty();
}

std::string http_request(const std::string& method, const std::string& target,
                         const std::vector<std::pair<std::string, std::string>>& headers, const std::string& body, bool content_length)
{
    std::string s = method + " " + target + " HTTP/1.1\r\n";
    for (auto& h : headers) s += h.first + ": " + h.second + "\r\n";
    if (content_length && (!body.empty() || method == "POST" || method == "PUT")) s += "Content-Length: " + std::to_string(body.size()) + "\r\n";
    s += "\r\n";
    s += body;
    return s;
}

std::string http_response(int status, const std::vector<std::pair<std::string, std::string>>& headers, const std::string& body)
{
    std::string s = "HTTP/1.1 " + std::to_string(status) + " X\r\n";
    for (auto& h : headers) s += h.first + ": " + h.second + "\r\n";
    s += "Content-Length: " + std::to_string(body.size()) + "\r\n\r\n";
    s += body;
    return s;
}

std::string chunked(const std::vector<std::string>& chunks)
{
    std::string s;
    char b[32];
    for (auto& c : chunks) {
        if (c.empty()) continue;
        snprintf(b, sizeof b, "%zx\r\n", c.size());
        s += b;
        s += c;
        s += "\r\n";
    }
    s += "0\r\n\r\n";
    return s;
}

std::string pattern(u64 tag, size_t n)
{
    std::string s;
    s.reserve(n + 16);
    char b[24];
    for (size_t blk = 0; s.size() < n; ++blk) {
        snprintf(b, sizeof b, "%06llx:%08zx;", static_cast<unsigned long long>(tag & 0xffffff), blk);
        s.append(b, 16);
    }
    s.resize(n);
    return s;
}

// ---- Client --------------------------------------------------------------------------------------
Client::Client(int id_, int port_, std::vector<Step> steps_)
    : id(id_)
    , port(port_)
    , steps(std::move(steps_))
{ }

void Client::start(i64 delay_ns)
{
    auto self = shared_from_this();
    sim::schedule_in(delay_ns, [self] { self->poke(); }, "client.start");
}

void Client::arm_timer(i64 dt)
{
    step_deadline = sim::now_ns() + dt;
    auto self = shared_from_this();
    u64 g = ++gen;
    sim::schedule_in(dt, [self, g] {
        if (self->gen == g) self->poke();
    }, "client.timer");
}

void Client::finish()
{
    if (st.finished) return;
    st.finished = true;
    st.finished_at = sim::now_ns();
}

void Client::drain()
{
    if (!sock || !reading) return;
    char tmp[16384];
    for (;;) {
        size_t want = sizeof tmp;
        if (read_burst && read_burst < want) want = read_burst;
        size_t n = sock->recv(tmp, want);
        if (n == 0) break;
        received.append(tmp, n);
        st.bytes_recv += n;
        if (parse_http) reader.feed(tmp, n);
        if (read_burst) {
            if (sock->readable() > 0 && !read_timer) {
                read_timer = true;
                auto self = shared_from_this();
                sim::schedule_in(read_interval_ns > 0 ? read_interval_ns : 1000, [self] {
                    self->read_timer = false;
                    self->drain();
                    self->poke();
                }, "client.read");
            }
            break;
        }
    }
    if (sock->peer_fin() && !st.peer_fin) {
        st.peer_fin = true;
        st.fin_at = sim::now_ns();
    }
}

void Client::chatter_tick()
{
    if (st.finished || st.closed_by_us || st.reset || !sock) return;
    // a chatter message goes out whole, and never into the middle of a scripted Send (nor a scripted Send into the
    // middle of it): what is left of a message that did not fit is sent first, and a Send step waits for it
    const bool send_in_progress = pc < steps.size() && steps[pc].kind == Step::Send && step_started && send_off > 0 && send_off < steps[pc].data.size();
    if (!send_in_progress) {
        if (chatter_left.empty() && chatter_count > 0) {
            chatter_count--;
            chatter_left = chatter_data;
        }
        if (!chatter_left.empty()) {
            size_t n = sock->send(chatter_left.data(), chatter_left.size());
            st.bytes_sent += n;
            chatter_left.erase(0, n);
        }
    }
    if (chatter_count <= 0 && chatter_left.empty()) {
        poke();
        return;
    }
    auto self = shared_from_this();
    sim::schedule_in(chatter_left.empty() ? chatter_ns : std::min<i64>(chatter_ns, 200 * 1000), [self] { self->chatter_tick(); }, "client.chatter");
    if (chatter_left.empty()) poke();
}

void Client::on_event(uint32_t ev)
{
    using simk::ActorSock;
    if (ev & ActorSock::Connected) {
        st.connected = true;
        st.connected_at = sim::now_ns();
        if (chatter_ns > 0 && chatter_count > 0 && !chatter_started) {
            chatter_started = true;
            auto self = shared_from_this();
            sim::schedule_in(chatter_ns, [self] { self->chatter_tick(); }, "client.chatter");
        }
    }
    if (ev & ActorSock::Refused) st.refused = true;
    if (ev & (ActorSock::Readable | ActorSock::PeerFin)) drain();
    if (ev & ActorSock::Reset) {
        if (reading) drain();
        if (!st.reset) {
            st.reset = true;
            st.reset_at = sim::now_ns();
        }
    }
    poke();
}

void Client::poke()
{
    for (;;) {
        if (st.finished) return;
        if (pc >= steps.size()) {
            finish();
            return;
        }
        Step& s = steps[pc];
        bool advance = false;
        switch (s.kind) {
        case Step::Connect:
            if (!step_started) {
                step_started = true;
                auto self = shared_from_this();
                sock = simk::ActorSock::connect(port, [self](uint32_t ev) { self->on_event(ev); },
                                                custom_net ? &to_server : nullptr, custom_net ? &from_server : nullptr);
                return;
            }
            if (st.connected) advance = true;
            else if (st.refused || st.reset) {
                finish();
                return;
            } else return;
            break;
        case Step::Send: {
            if (!sock || !st.connected || st.reset || st.closed_by_us) {
                st.send_start.push_back(-1);
                st.send_done.push_back(-1);
                advance = true;
                break;
            }
            if (!step_started || send_off == 0) {
                if (!chatter_left.empty()) return; // the rest of a chatter message goes first (chatter_tick pokes us)
            }
            if (!step_started) {
                step_started = true;
                send_off = 0;
                step_deadline = -1;
                st.send_start.push_back(sim::now_ns());
            }
            if (step_deadline >= 0 && sim::now_ns() < step_deadline) return; // inside a gap
            bool wait = false;
            while (send_off < s.data.size()) {
                size_t piece_end = s.data.size();
                for (size_t c : s.cuts)
                    if (c > send_off && c < piece_end) piece_end = c;
                size_t want = piece_end - send_off;
                size_t n = sock->send(s.data.data() + send_off, want);
                send_off += n;
                st.bytes_sent += n;
                if (sock->is_reset()) break;
                if (n < want) {
                    wait = true; // buffer full: wait for Writable
                    break;
                }
                if (send_off < s.data.size() && s.gap_ns > 0) {
                    arm_timer(s.gap_ns);
                    wait = true;
                    break;
                }
            }
            if (wait) return;
            st.send_done.push_back(sim::now_ns());
            advance = true;
            break;
        }
        case Step::Await:
        case Step::AwaitBytes: {
            bool have = s.kind == Step::Await ? static_cast<int>(reader.done.size()) >= s.n : static_cast<long long>(received.size()) >= s.n;
            if (have) {
                st.await_ok.push_back(true);
                advance = true;
            } else if (st.peer_fin || st.reset || (s.kind == Step::Await && reader.broken)) {
                st.await_ok.push_back(false);
                advance = true;
            } else if (!step_started) {
                step_started = true;
                arm_timer(s.dur_ns > 0 ? s.dur_ns : 1000000000LL);
                return;
            } else if (sim::now_ns() >= step_deadline) {
                st.await_ok.push_back(false);
                advance = true;
            } else return;
            break;
        }
        case Step::Pause:
            if (!step_started) {
                step_started = true;
                arm_timer(s.dur_ns);
                return;
            }
            if (sim::now_ns() >= step_deadline) advance = true;
            else return;
            break;
        case Step::StopReading:
            reading = false;
            advance = true;
            break;
        case Step::ResumeReading:
            reading = true;
            drain();
            advance = true;
            break;
        case Step::ShutdownWr:
            if (sock && st.connected) sock->shutdown_wr();
            advance = true;
            break;
        case Step::Close:
            if (sock && !st.closed_by_us) {
                sock->close();
                st.closed_by_us = true;
            }
            advance = true;
            break;
        case Step::Abort:
            if (sock && !st.closed_by_us) {
                sock->abort();
                st.closed_by_us = true;
            }
            advance = true;
            break;
        case Step::AwaitClose:
            if (st.peer_fin || st.reset || !sock || st.closed_by_us) advance = true;
            else if (!step_started) {
                step_started = true;
                arm_timer(s.dur_ns > 0 ? s.dur_ns : 1000000000LL);
                return;
            } else if (sim::now_ns() >= step_deadline) advance = true;
            else return;
            break;
        }
        if (advance) {
            pc++;
            step_started = false;
            step_deadline = -1;
            ++gen;
        }
    }
}

std::vector<Step> steps_from_json(const sj::Json& j)
{
    std::vector<Step> out;
    for (size_t i = 0; i < j.size(); ++i) {
        const sj::Json& e = j.at(i);
        std::string k = e.at(0).as_str();
        Step s;
        if (k == "connect") s.kind = Step::Connect;
        else if (k == "send") {
            s.kind = Step::Send;
            s.data = e.at(1).as_str();
            const sj::Json& o = e.at(2);
            const sj::Json& cuts = o.get("cuts");
            for (size_t c = 0; c < cuts.size(); ++c) s.cuts.push_back(static_cast<size_t>(cuts.at(c).as_int()));
            s.gap_ns = o.num("gap_us", 0) * 1000;
        } else if (k == "await") {
            s.kind = Step::Await;
            s.n = static_cast<int>(e.at(1).as_int());
            s.dur_ns = e.at(2).as_int(1000) * 1000000LL;
        } else if (k == "await_bytes") {
            s.kind = Step::AwaitBytes;
            s.n = static_cast<int>(e.at(1).as_int());
            s.dur_ns = e.at(2).as_int(1000) * 1000000LL;
        } else if (k == "pause_us") {
            s.kind = Step::Pause;
            s.dur_ns = e.at(1).as_int() * 1000LL;
        } else if (k == "stop_reading") s.kind = Step::StopReading;
        else if (k == "resume_reading") s.kind = Step::ResumeReading;
        else if (k == "shutdown_wr") s.kind = Step::ShutdownWr;
        else if (k == "close") s.kind = Step::Close;
        else if (k == "abort") s.kind = Step::Abort;
        else if (k == "await_close") {
            s.kind = Step::AwaitClose;
            s.dur_ns = e.at(1).as_int(1000) * 1000000LL;
        } else continue;
        out.push_back(std::move(s));
    }
    return out;
}

} // namespace actors
