// simrt: deterministic scheduler, simulated clock, PRNG streams, run recorder.
//
// Real pthreads, one running at a time ("baton"). Every wrapped call, every
// PISTACHE_SIM_POINT, every thread start/exit is a decision point at which the
// seeded scheduler decides who runs next. Blocking operations are simulated
// states (a predicate plus an optional deadline); when nothing is runnable the
// simulated clock jumps to the next deadline or event.
#pragma once
#include <cstdint>
#include <functional>
#include <map>
#include <string>
#include <vector>

#include "json.h"

namespace sim {

using i64 = int64_t;
using u64 = uint64_t;

// ---- PRNG -----------------------------------------------------------------
inline u64 splitmix64(u64& x) {
    u64 z = (x += 0x9e3779b97f4a7c15ULL);
    z = (z ^ (z >> 30)) * 0xbf58476d1ce4e5b9ULL;
    z = (z ^ (z >> 27)) * 0x94d049bb133111ebULL;
    return z ^ (z >> 31);
}
inline u64 mix(u64 a, u64 b) {
    u64 x = a ^ (b + 0x9e3779b97f4a7c15ULL + (a << 6) + (a >> 2));
    return splitmix64(x);
}
inline u64 hash_str(const char* s) {
    u64 h = 1469598103934665603ULL;
    for (; s && *s; ++s) { h ^= static_cast<unsigned char>(*s); h *= 1099511628211ULL; }
    return h;
}
inline u64 hash_bytes(const void* p, size_t n, u64 h = 1469598103934665603ULL) {
    const unsigned char* s = static_cast<const unsigned char*>(p);
    for (size_t i = 0; i < n; ++i) { h ^= s[i]; h *= 1099511628211ULL; }
    return h;
}

struct Rng {
    u64 s;
    explicit Rng(u64 seed = 1) : s(seed) {}
    u64 next() { return splitmix64(s); }
    // uniform in [0, n)
    u64 below(u64 n) { return n ? next() % n : 0; }
    // uniform in [lo, hi]
    i64 range(i64 lo, i64 hi) { return hi <= lo ? lo : lo + static_cast<i64>(below(static_cast<u64>(hi - lo + 1))); }
    bool chance(double p) { return (next() >> 11) * (1.0 / 9007199254740992.0) < p; }
    template <typename T> const T& pick(const std::vector<T>& v) { return v[below(v.size())]; }
    Rng fork(const char* label) { return Rng(mix(next(), hash_str(label))); }
};

// ---- configuration of one run ----------------------------------------------
enum Policy { PolicyRandom = 0, PolicyPct = 1, PolicySticky = 2 };

struct Config {
    u64 sched_seed = 1;
    int policy = PolicyRandom;
    int pct_depth = 2;        // number of priority change points (PCT)
    u64 pct_horizon = 2000;   // estimated decision points per run (PCT)
    double sticky_p = 0.8;    // probability to keep the current thread (sticky)
    u64 max_steps = 400000;   // livelock bound
    i64 max_sim_ns = 900LL * 1000000000LL; // simulated-time bound (periodic timers keep a stuck run alive forever)
    i64 quantum_max_ns = 2000;
    double stall_p = 0.0;     // per decision point probability of a thread stall fault
    i64 stall_max_ns = 50 * 1000 * 1000;
    double pause_p = 0.0;     // per decision point: the thread there is descheduled for up to pause_max_ns
    i64 pause_max_ns = 5 * 1000 * 1000;
    unsigned hot_buckets = 0; // bit mask over 16 hash buckets of site names: sites in these buckets are "hot" in this run
    std::vector<std::string> hot_sites; // sites named by the scenario as hot in this run
    std::string hot_thread_prefix; // if set: only threads whose name starts with this are paused at the named hot sites (application threads)
    double hot_pause_p = 0.0; // probability of a pause at a hot site
    u64 max_pauses = 64;      // per run
    double start_delay_p = 0.0; // per created thread: probability that it starts late
    i64 start_delay_max_ns = 2 * 1000 * 1000;
    std::vector<int> guided;  // if non-empty: replay these choices at multi-choice points (-1: default rule), then fall back to policy
    bool guided_default_tail = false; // after the guided list: default rule (keep the running thread, else lowest id) instead of the policy
    bool record_choices = false;
};

// ---- verdicts / recorder ----------------------------------------------------
struct Violation {
    std::string sig;     // oracle-id:cause-tag
    std::string detail;
};

struct Recorder {
    std::vector<Violation> violations;
    std::map<std::string, i64> probes;   // reach probes
    std::map<std::string, i64> faults;   // fault kinds that actually fired
    std::map<std::string, i64> stats;    // other counters (simulated time, steps, ...)
    std::vector<std::string> notes;      // a few free-text lines for samples
    void violation(const std::string& sig, const std::string& detail);
    void probe(const std::string& name, i64 n = 1) { probes[name] += n; }
    void fault(const std::string& name, i64 n = 1) { faults[name] += n; }
    void clear() { violations.clear(); probes.clear(); faults.clear(); stats.clear(); notes.clear(); }
};
Recorder& rec();

// ---- run control -------------------------------------------------------------
// begin_run: the calling thread becomes simulated thread 0 ("driver").
void begin_run(const Config& cfg);
// end_run: every other simulated thread must have finished. Returns false (and records a
// violation "sim.leak:thread-alive") if some are still alive.
bool end_run();
bool in_sim();                      // calling thread is a registered simulated thread of an active run
int self_id();                      // simulated thread id of caller, -1 if none
const char* self_name();
void set_self_name(const char* name);
int thread_count();                 // simulated threads created in this run
int live_thread_count();            // ... that have not finished

// fatal: print the result line through the fatal handler and _exit. Used for deadlock,
// livelock, terminate, and by scenarios that detect a violation while threads are stuck.
[[noreturn]] void fatal(const std::string& verdict, const std::string& sig, const std::string& detail);
void set_fatal_handler(std::function<void(const std::string& verdict)> fn);
// description of all threads (for deadlock details)
std::string describe_threads();
// Optional hook: lets a scenario turn a deadlock / livelock / simulated time-out into a property-specific
// signature (the argument is the verdict: "deadlock", "livelock" or "timeout").
void set_fatal_classifier(std::function<std::pair<std::string, std::string>(const std::string&)> fn);

// ---- decision points / blocking ----------------------------------------------
void point(const char* site, const void* addr = nullptr);
// Block the calling thread until pred() holds or the deadline (absolute simulated ns, -1 = none)
// has passed. Returns true if pred() held when the thread was resumed.
bool block_until(const std::function<bool()>& pred, i64 deadline_ns, const char* what);
void sleep_ns(i64 ns);
// the wall clock (system_clock) is stepped by delta (an NTP step, a date set by hand, a VM resume); the monotonic clock is not
void step_wall_clock(i64 delta_ns);
i64 wall_offset_ns();
// Block until every other live thread waits, without a deadline, for something that has not happened yet (or the
// time-out passes). Lets a harness act "once the system has gone quiet" under thread stalls of any length.
bool quiesce(i64 timeout_ns);

// ---- simulated time & events ---------------------------------------------------
i64 now_ns();
u64 schedule_at(i64 t_ns, std::function<void()> fn, const char* tag);
u64 schedule_in(i64 dt_ns, std::function<void()> fn, const char* tag);
void cancel(u64 id);

// ---- trace ----------------------------------------------------------------------
void trace(u64 x);                 // mix something into the event-log hash
void trace_s(const char* s);
u64 trace_hash();
u64 sched_hash();                  // hash over (thread, site) at multi-choice decision points only
u64 steps();
u64 multi_choice_points();
u64 preemptions();
const std::vector<int>& recorded_choices();
Rng& sched_rng();
Rng& net_rng();                    // independent stream for network timing (derived from sched seed)

// Verbose textual event log (only with SIM_VERBOSE=1); never draws randomness.
bool verbose();
void logf(const char* fmt, ...) __attribute__((format(printf, 1, 2)));

// Real-time watchdog (started once per process): if the step counter does not move for
// `secs` wall seconds while a run is active, reports verdict "hang".
void start_watchdog(int secs);

void heartbeat();      // tells the hang watchdog that the harness (not the code under test) is making progress
int ignore_depth();   // > 0 while the calling thread is inside simulator / harness code

// TSan ignore regions for simulator/harness code (no-ops in other variants)
struct IgnoreScope {
    IgnoreScope();
    ~IgnoreScope();
};

} // namespace sim
