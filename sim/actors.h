// Scripted simulated peers: raw TCP/HTTP clients and servers with an independent,
// deliberately simple HTTP reader/writer. They run inside simulator events (never yield).
#pragma once
#include <map>
#include <memory>
#include <string>
#include <vector>

#include "json.h"
#include "simkernel.h"

namespace actors {

using sim::i64;
using sim::u64;

// ---- independent HTTP response reader -----------------------------------------------------
struct HttpMsg {
    int status = 0;                 // responses
    std::string method, target;     // requests
    std::string version;
    std::vector<std::pair<std::string, std::string>> headers; // names lower-cased
    std::string body;
    bool chunked = false;
    size_t raw_len = 0;
    i64 done_at = 0;
    std::string header(const std::string& name) const
    {
        for (auto& h : headers)
            if (h.first == name) return h.second;
        return "";
    }
    int header_count(const std::string& name) const
    {
        int n = 0;
        for (auto& h : headers)
            if (h.first == name) n++;
        return n;
    }
};

struct HttpReader {
    bool requests = false;          // parse requests instead of responses
    std::string buf;
    size_t consumed = 0;
    std::vector<HttpMsg> done;
    int interim = 0;                // 1xx responses seen (not in `done`)
    bool broken = false;
    std::string broken_why;
    void feed(const char* data, size_t len);
    size_t pending_bytes() const { return buf.size(); }
private:
    bool try_one();
};

std::string http_request(const std::string& method, const std::string& target,
                         const std::vector<std::pair<std::string, std::string>>& headers, const std::string& body,
                         bool content_length = true);
std::string http_response(int status, const std::vector<std::pair<std::string, std::string>>& headers, const std::string& body);
std::string chunked(const std::vector<std::string>& chunks);
// deterministic payload of n bytes in which every byte is attributable to (tag, offset)
std::string pattern(u64 tag, size_t n);

// ---- scripted client ------------------------------------------------------------------------
struct Step {
    enum Kind { Connect, Send, Await, Pause, StopReading, ResumeReading, ShutdownWr, Close, Abort, AwaitClose, AwaitBytes } kind = Pause;
    std::string data;               // Send
    std::vector<size_t> cuts;       // Send: offsets at which the data is cut into separate writes
    i64 gap_ns = 0;                 // Send: pause between the pieces
    i64 dur_ns = 0;                 // Pause / StopReading / time-out of Await*
    int n = 0;                      // Await: total number of responses to have; AwaitBytes: total bytes
};

struct ClientStats {
    bool connected = false, refused = false, peer_fin = false, reset = false, finished = false, closed_by_us = false;
    i64 connected_at = -1, fin_at = -1, reset_at = -1, finished_at = -1;
    std::vector<i64> send_start, send_done;     // per Send step: first byte handed to the socket / last byte accepted
    std::vector<bool> await_ok;                 // per Await step
    u64 bytes_sent = 0, bytes_recv = 0;
};

class Client : public std::enable_shared_from_this<Client> {
public:
    Client(int id, int port, std::vector<Step> steps);
    int id;
    int port;
    std::vector<Step> steps;
    simk::NetParams to_server, from_server;
    bool custom_net = false;
    // background chatter: while the script runs, `chatter_data` is sent every chatter_ns, at most chatter_count times
    i64 chatter_ns = 0;
    int chatter_count = 0;
    std::string chatter_data;
    std::string chatter_left;       // what is left of a chatter message that the socket did not take whole
    size_t read_burst = 0;          // 0: read everything available; else at most this many bytes per read event
    i64 read_interval_ns = 0;       // pause between read events when read_burst is set
    std::string received;
    bool parse_http = true;         // feed what is received to `reader` (off for raw byte-stream clients)
    HttpReader reader;
    ClientStats st;
    std::shared_ptr<simk::ActorSock> sock;

    void start(i64 delay_ns = 0);
    bool finished() const { return st.finished; }
    size_t responses() const { return reader.done.size(); }
    int conn_id() const { return sock ? sock->id() : -1; }
    int server_fd() const { return sock ? sock->peer_fd() : -1; }

private:
    size_t pc = 0;
    bool reading = true;
    bool step_started = false;
    size_t send_off = 0, send_piece = 0;
    i64 step_deadline = -1;
    bool timer_pending = false;
    bool read_timer = false;
    u64 gen = 0;
    void poke();
    void on_event(uint32_t ev);
    void drain();
    void arm_timer(i64 dt);
    void finish();
    void chatter_tick();
    bool chatter_started = false;
};

// Parse a step list from JSON: [["connect"],["send",data,{cuts:[..],gap_us:..}],["await",n,timeout_ms],["pause_us",d],
// ["stop_reading"],["resume_reading"],["shutdown_wr"],["close"],["abort"],["await_close",timeout_ms],["await_bytes",n,timeout_ms]]
std::vector<Step> steps_from_json(const sj::Json& j);

// ---- scripted server (for the real HTTP client) --------------------------------------------------
struct ServerBehaviour {
    enum Kind { Immediate, Delayed, Dribble, Chunked, CloseAfter, Never, Late } kind = Immediate;
    i64 delay_ns = 0;
    size_t piece = 0;
    i64 gap_ns = 0;
};

} // namespace actors
