// simkernel.cc — see simkernel.h. Semantics follow the Linux implementation where Pistache
// depends on them (edge-triggered epoll, write-space wake-ups, FIN/RST readiness).
#include "simkernel.h"

#include <algorithm>
#include <cerrno>
#include <cstdarg>
#include <cstdio>
#include <cstring>
#include <set>

#include <arpa/inet.h>
#include <fcntl.h>
#include <netinet/in.h>
#include <poll.h>
#include <sys/epoll.h>
#include <sys/eventfd.h>
#include <sys/resource.h>
#include <sys/sendfile.h>
#include <sys/socket.h>
#include <sys/stat.h>
#include <sys/timerfd.h>
#include <unistd.h>

using sim::IgnoreScope;

namespace simk {

namespace {

    struct Epoll;
    struct File;

    struct Watch {
        Epoll* ep;
        int fd;
    };

    struct File {
        enum Kind { KEpoll, KEvent, KTimer, KListen, KStream } kind;
        int fd = -1;
        int flags = 0; // O_NONBLOCK
        std::vector<Watch> watchers;
        explicit File(Kind k) : kind(k) { }
        virtual ~File() = default;
        virtual uint32_t poll_mask() = 0;
        void wake(uint32_t key); // key 0 = keyless wake-up
        const char* kind_name() const
        {
            switch (kind) {
            case KEpoll: return "epoll";
            case KEvent: return "eventfd";
            case KTimer: return "timerfd";
            case KListen: return "listen";
            case KStream: return "stream";
            }
            return "?";
        }
    };

    struct EpItem {
        int fd;
        File* file;
        uint32_t events;
        uint64_t data;
        bool in_ready = false;
    };

    struct Epoll : File {
        Epoll() : File(KEpoll) { }
        std::map<int, EpItem> items;
        std::deque<int> ready;
        int stats_idx = -1;
        u64 last_progress = 0;
        int idle_returns = 0;
        uint32_t poll_mask() override { return has_ready() ? EPOLLIN : 0; }
        void on_wake(int fd, uint32_t key)
        {
            auto it = items.find(fd);
            if (it == items.end()) return;
            EpItem& item = it->second;
            if (!(item.events & ~(EPOLLET | EPOLLONESHOT | EPOLLEXCLUSIVE | EPOLLWAKEUP))) return; // disarmed
            if (key && !(key & item.events)) return;
            if (!item.in_ready) {
                item.in_ready = true;
                ready.push_back(fd);
            }
        }
        bool has_ready()
        {
            for (size_t i = 0; i < ready.size();) {
                EpItem& item = items[ready[i]];
                uint32_t rev = item.file->poll_mask() & item.events;
                if (rev) return true;
                item.in_ready = false;
                ready.erase(ready.begin() + static_cast<long>(i));
            }
            return false;
        }
    };

    void File::wake(uint32_t key)
    {
        for (auto& w : watchers) w.ep->on_wake(fd, key);
    }

    struct EventFd : File {
        EventFd() : File(KEvent) { }
        uint64_t counter = 0;
        uint32_t poll_mask() override { return (counter > 0 ? EPOLLIN : 0) | EPOLLOUT; }
    };

    struct TimerFd : File {
        TimerFd() : File(KTimer) { }
        uint64_t expirations = 0;
        u64 gen = 0;
        i64 interval = 0;
        uint32_t poll_mask() override { return expirations > 0 ? EPOLLIN : 0; }
    };

    struct Seg {
        std::string data;
        i64 arrive;
        bool fin;
    };

    struct Dir { // bytes flowing from end w to end 1-w
        NetParams np;
        std::deque<Seg> inflight;
        size_t inflight_bytes = 0;
        std::string rxq;
        size_t rx_off = 0;
        bool fin_queued = false;    // writer shut down its sending side
        bool fin_delivered = false; // reader has the FIN in its queue
        bool nospace = false;
        i64 last_arrive = 0;
        u64 accepted = 0, delivered = 0, consumed = 0;
        size_t rx_avail() const { return rxq.size() - rx_off; }
    };

    struct Stream;
    struct End {
        Stream* file = nullptr;                 // fd-owning end
        ActorSock::Callback cb;                 // actor end
        bool is_actor = false;
        bool closed = false;
        bool established = false;
        int err = 0;                            // pending socket error
        bool got_reset = false;                 // connection was reset (by peer or refused)
        uint32_t pending_ev = 0;
        bool ev_scheduled = false;
    };

} // namespace

struct Conn : std::enable_shared_from_this<Conn> {
    int id = 0;
    Dir d[2];
    End e[2];
    int client_port = 0;
    int server_port = 0;
};

namespace {

    struct Stream : File {
        Stream() : File(KStream) { }
        std::shared_ptr<Conn> conn; // null until connected / accepted
        int side = 0;
        int bound_port = 0;
        int stats_idx = -1;
        bool connecting = false;
        uint32_t poll_mask() override;
    };

    struct Listen : File {
        Listen() : File(KListen) { }
        int port = 0;
        int backlog = 128;
        bool listening = false;
        std::deque<std::shared_ptr<Conn>> acceptq;
        uint32_t poll_mask() override { return acceptq.empty() ? 0 : EPOLLIN; }
    };

    struct PortEntry {
        Listen* file = nullptr;
        std::function<void(std::shared_ptr<ActorSock>)> actor_accept;
    };

    struct K {
        std::vector<std::unique_ptr<File>> fds; // index = fd - FD_BASE
        std::map<int, PortEntry> ports;
        int next_ephemeral = 40000;
        int next_conn = 0;
        u64 total_fds = 0;
        Faults faults;
        std::vector<Anomaly> anomalies;
        std::vector<SockStats> sstats;
        std::vector<EpollStats> estats;
        std::set<int> real_files; // real descriptors opened through the wrapped open()
        u64 io_progress = 0;
        std::map<int, int> eagain_streak; // per thread: EAGAIN results from send since its last epoll_wait
        sim::Rng frng { 7 };
        bool frng_init = false;
        std::function<void(int)> close_observer;
    };
    K k;

    sim::Rng& frng()
    {
        if (!k.frng_init) {
            k.frng = sim::net_rng().fork("faults");
            k.frng_init = true;
        }
        return k.frng;
    }

    void anomaly(const std::string& kind, const std::string& detail)
    {
        k.anomalies.push_back({ kind, detail });
        sim::logf("ANOMALY %s: %s", kind.c_str(), detail.c_str());
    }

    File* get(int fd)
    {
        int i = fd - FD_BASE;
        if (i < 0 || i >= static_cast<int>(k.fds.size())) return nullptr;
        return k.fds[static_cast<size_t>(i)].get();
    }
    template <typename T>
    T* get_as(int fd, File::Kind kind)
    {
        File* f = get(fd);
        if (!f || f->kind != kind) return nullptr;
        return static_cast<T*>(f);
    }
    int install(std::unique_ptr<File> f)
    {
        size_t i = 0;
        for (; i < k.fds.size(); ++i)
            if (!k.fds[i]) break;
        if (i == k.fds.size()) k.fds.emplace_back();
        f->fd = FD_BASE + static_cast<int>(i);
        int fd = f->fd;
        k.fds[i] = std::move(f);
        k.total_fds++;
        sim::trace(sim::mix(0xfd, static_cast<u64>(fd)));
        return fd;
    }

    // ---- connection mechanics ---------------------------------------------------------
    bool dir_writable(const Dir& d)
    {
        size_t used = d.inflight_bytes;
        size_t cap = d.np.sndbuf;
        if (used >= cap) return false;
        size_t free_ = cap - used;
        return free_ >= (used >> 1) && free_ >= 1;
    }

    void notify(const std::shared_ptr<Conn>& c, int side, uint32_t epoll_key, uint32_t actor_ev)
    {
        End& e = c->e[side];
        if (e.closed) return;
        if (e.file) {
            e.file->wake(epoll_key);
        } else if (e.is_actor) {
            e.pending_ev |= actor_ev;
            if (!e.ev_scheduled) {
                e.ev_scheduled = true;
                std::weak_ptr<Conn> wc = c;
                sim::schedule_in(0, [wc, side] {
                    auto cc = wc.lock();
                    if (!cc) return;
                    End& ee = cc->e[side];
                    ee.ev_scheduled = false;
                    uint32_t ev = ee.pending_ev;
                    ee.pending_ev = 0;
                    if (ee.cb && !ee.closed && ev) {
                        auto cb = ee.cb; // copy: the callback may replace itself
                        cb(ev);
                    }
                }, "actor.notify");
            }
        }
    }

    void do_reset(const std::shared_ptr<Conn>& c, int victim_side, int err)
    {
        // victim_side receives an RST
        End& v = c->e[victim_side];
        if (v.got_reset) return;
        v.got_reset = true;
        v.err = err;
        // whatever the victim had in flight is dropped; what it already received stays readable
        Dir& out = c->d[victim_side];
        out.inflight.clear();
        out.inflight_bytes = 0;
        Dir& in = c->d[1 - victim_side];
        in.inflight.clear();
        in.inflight_bytes = 0;
        k.io_progress++;
        notify(c, victim_side, 0, ActorSock::Reset);
    }

    void pump(const std::shared_ptr<Conn>& c, int w); // deliver due segments of direction w

    void schedule_pump(const std::shared_ptr<Conn>& c, int w, i64 at)
    {
        std::weak_ptr<Conn> wc = c;
        sim::schedule_at(at, [wc, w] {
            if (auto cc = wc.lock()) pump(cc, w);
        }, "net.deliver");
    }

    void pump(const std::shared_ptr<Conn>& c, int w)
    {
        Dir& d = c->d[w];
        End& reader = c->e[1 - w];
        bool delivered_any = false, fin_now = false;
        while (!d.inflight.empty() && d.inflight.front().arrive <= sim::now_ns()) {
            Seg& s = d.inflight.front();
            if (reader.closed || reader.got_reset) {
                // data (or FIN) for an endpoint that is gone
                bool had_data = !s.data.empty();
                d.inflight_bytes -= s.data.size();
                d.inflight.pop_front();
                if (had_data && reader.closed && !c->e[w].got_reset) {
                    do_reset(c, w, ECONNRESET);
                    return;
                }
                continue;
            }
            if (!s.data.empty()) {
                if (d.rx_avail() > 0 && d.rx_avail() + s.data.size() > d.np.rcvbuf) break; // window closed
                if (d.rx_off > 0 && d.rx_off == d.rxq.size()) {
                    d.rxq.clear();
                    d.rx_off = 0;
                }
                d.rxq.append(s.data);
                d.delivered += s.data.size();
                d.inflight_bytes -= s.data.size();
                delivered_any = true;
                k.io_progress++;
            }
            if (s.fin) {
                d.fin_delivered = true;
                fin_now = true;
            }
            d.inflight.pop_front();
        }
        if (delivered_any) notify(c, 1 - w, EPOLLIN, ActorSock::Readable);
        if (fin_now) notify(c, 1 - w, 0, ActorSock::PeerFin);
        if (delivered_any || fin_now) {
            // sender-side space was freed
            if (d.nospace && dir_writable(d) && !c->e[w].closed) {
                d.nospace = false;
                notify(c, w, EPOLLOUT, ActorSock::Writable);
            }
        }
    }

    // returns bytes accepted, or -errno
    long conn_send(const std::shared_ptr<Conn>& c, int side, const char* data, size_t len, long cap)
    {
        End& me = c->e[side];
        Dir& d = c->d[side];
        if (me.got_reset) {
            if (me.err) {
                int e = me.err;
                me.err = 0;
                return -e;
            }
            return -EPIPE;
        }
        if (d.fin_queued) return -EPIPE;
        if (!me.established) return -ENOTCONN;
        size_t room = d.np.sndbuf > d.inflight_bytes ? d.np.sndbuf - d.inflight_bytes : 0;
        size_t n = std::min(len, room);
        if (cap >= 0 && static_cast<size_t>(cap) < n) n = static_cast<size_t>(cap);
        if (n == 0 && len > 0) {
            d.nospace = true;
            return -EAGAIN;
        }
        if (n < len) d.nospace = true;
        size_t off = 0;
        sim::Rng& nr = sim::net_rng();
        while (off < n) {
            size_t m = std::min(n - off, d.np.mss ? d.np.mss : static_cast<size_t>(1));
            Seg s;
            s.data.assign(data + off, m);
            s.fin = false;
            i64 lat = d.np.latency_ns + (d.np.jitter_ns > 0 ? static_cast<i64>(nr.below(static_cast<u64>(d.np.jitter_ns) + 1)) : 0);
            s.arrive = std::max(d.last_arrive, sim::now_ns() + lat);
            d.last_arrive = s.arrive;
            i64 at = s.arrive;
            d.inflight.push_back(std::move(s));
            d.inflight_bytes += m;
            schedule_pump(c, side, at);
            off += m;
        }
        d.accepted += n;
        k.io_progress++;
        return static_cast<long>(n);
    }

    void conn_send_fin(const std::shared_ptr<Conn>& c, int side)
    {
        Dir& d = c->d[side];
        if (d.fin_queued || c->e[side].got_reset) return;
        d.fin_queued = true;
        Seg s;
        s.fin = true;
        i64 lat = d.np.latency_ns + (d.np.jitter_ns > 0 ? static_cast<i64>(sim::net_rng().below(static_cast<u64>(d.np.jitter_ns) + 1)) : 0);
        s.arrive = std::max(d.last_arrive, sim::now_ns() + lat);
        d.last_arrive = s.arrive;
        i64 at = s.arrive;
        d.inflight.push_back(std::move(s));
        schedule_pump(c, side, at);
    }

    // returns bytes read, 0 for EOF, or -errno
    long conn_recv(const std::shared_ptr<Conn>& c, int side, char* buf, size_t len, long cap)
    {
        End& me = c->e[side];
        Dir& d = c->d[1 - side];
        size_t avail = d.rx_avail();
        if (avail > 0) {
            size_t n = std::min(len, avail);
            if (cap > 0 && static_cast<size_t>(cap) < n) n = static_cast<size_t>(cap);
            memcpy(buf, d.rxq.data() + d.rx_off, n);
            d.rx_off += n;
            d.consumed += n;
            k.io_progress++;
            if (d.rx_off == d.rxq.size()) {
                d.rxq.clear();
                d.rx_off = 0;
            }
            // window opened: stalled segments may be deliverable now
            if (!d.inflight.empty() && d.inflight.front().arrive <= sim::now_ns()) {
                std::weak_ptr<Conn> wc = c;
                int w = 1 - side;
                sim::schedule_in(0, [wc, w] {
                    if (auto cc = wc.lock()) pump(cc, w);
                }, "net.window");
            }
            return static_cast<long>(n);
        }
        if (me.got_reset) {
            if (me.err) {
                int e = me.err;
                me.err = 0;
                return -e;
            }
            return 0;
        }
        if (d.fin_delivered) return 0;
        if (!me.established) return -ENOTCONN;
        return -EAGAIN;
    }

    void conn_close(const std::shared_ptr<Conn>& c, int side, bool force_rst)
    {
        End& me = c->e[side];
        if (me.closed) return;
        Dir& in = c->d[1 - side];
        bool unread = in.rx_avail() > 0;
        me.closed = true;
        me.cb = nullptr;
        me.file = nullptr;
        End& peer = c->e[1 - side];
        if (peer.closed) return;
        if (me.got_reset) return; // connection already dead
        if (force_rst || unread) {
            // Linux sends RST when closing with unread data
            if (!peer.got_reset) {
                std::weak_ptr<Conn> wc = c;
                int ps = 1 - side;
                Dir& out = c->d[side];
                i64 lat = out.np.latency_ns;
                i64 at = std::max(sim::now_ns() + lat, force_rst ? static_cast<i64>(0) : out.last_arrive);
                sim::schedule_at(at, [wc, ps] {
                    if (auto cc = wc.lock()) do_reset(cc, ps, ECONNRESET);
                }, "net.rst");
            }
        } else {
            conn_send_fin(c, side);
        }
    }

    uint32_t Stream::poll_mask()
    {
        if (!conn) return connecting ? 0 : (EPOLLOUT | EPOLLHUP);
        End& me = conn->e[side];
        Dir& in = conn->d[1 - side];
        Dir& out = conn->d[side];
        uint32_t m = 0;
        if (!me.established && !me.got_reset) return 0; // SYN_SENT
        if (in.rx_avail() > 0) m |= EPOLLIN;
        if (in.fin_delivered) m |= EPOLLIN | EPOLLRDHUP;
        if (me.got_reset) {
            m |= EPOLLIN | EPOLLRDHUP | EPOLLHUP | EPOLLOUT;
            if (me.err) m |= EPOLLERR;
            return m;
        }
        if (in.fin_delivered && out.fin_queued) m |= EPOLLHUP;
        if (out.fin_queued) {
            m |= EPOLLOUT;
        } else if (dir_writable(out)) {
            m |= EPOLLOUT;
        } else {
            out.nospace = true;
        }
        return m;
    }

    NetParams draw_params(const NetParams& base)
    {
        if (!k.faults.randomize_net) return base;
        sim::Rng& r = sim::net_rng();
        NetParams p = base;
        static const size_t bufs[] = { 1, 7, 64, 512, 1024, 4096, 4096, 16384, 65536, 65536, 262144 };
        static const size_t msss[] = { 1, 3, 16, 100, 536, 1460, 1460, 9000, 65536 };
        p.sndbuf = bufs[r.below(sizeof bufs / sizeof bufs[0])];
        p.rcvbuf = bufs[r.below(sizeof bufs / sizeof bufs[0])];
        p.mss = msss[r.below(sizeof msss / sizeof msss[0])];
        if (p.mss > p.rcvbuf) p.mss = p.rcvbuf;
        p.latency_ns = static_cast<i64>(r.below(500 * 1000)) + 1000;
        p.jitter_ns = static_cast<i64>(r.below(200 * 1000));
        return p;
    }

    std::shared_ptr<Conn> new_conn(int server_port, const NetParams* c2s, const NetParams* s2c)
    {
        auto c = std::make_shared<Conn>();
        c->id = k.next_conn++;
        c->server_port = server_port;
        c->client_port = k.next_ephemeral++;
        c->d[0].np = c2s ? *c2s : (k.faults.randomize_c2s ? draw_params(k.faults.client_side) : k.faults.client_side); // side 0 = client
        c->d[1].np = s2c ? *s2c : draw_params(k.faults.server_side); // side 1 = server
        return c;
    }

    int new_stream_stats(int fd)
    {
        SockStats s;
        s.fd = fd;
        s.ordinal = static_cast<int>(k.sstats.size());
        s.opened_at = sim::now_ns();
        k.sstats.push_back(s);
        return s.ordinal;
    }

} // namespace

// ---- public API --------------------------------------------------------------------------------
Faults& faults() { return k.faults; }
const std::vector<Anomaly>& anomalies() { return k.anomalies; }
const std::vector<SockStats>& sock_stats() { return k.sstats; }
const std::vector<EpollStats>& epoll_stats() { return k.estats; }
u64 io_progress_counter() { return k.io_progress; }
u64 total_fds_created() { return k.total_fds; }

void reset()
{
    // Conn objects may be kept alive by actors; drop our tables.
    k.fds.clear();
    k.ports.clear();
    k.next_ephemeral = 40000;
    k.next_conn = 0;
    k.total_fds = 0;
    k.faults = Faults();
    k.anomalies.clear();
    k.sstats.clear();
    k.estats.clear();
    for (int fd : k.real_files) ::close(fd);
    k.real_files.clear();
    k.io_progress = 0;
    k.eagain_streak.clear();
    k.frng_init = false;
    k.close_observer = nullptr;
}

void set_stream_close_observer(std::function<void(int fd)> fn) { k.close_observer = std::move(fn); }

std::map<std::string, int> census()
{
    std::map<std::string, int> m;
    for (auto& f : k.fds)
        if (f) m[f->kind_name()]++;
    if (!k.real_files.empty()) m["realfile"] = static_cast<int>(k.real_files.size());
    return m;
}
std::string census_str()
{
    std::string s;
    for (auto& kv : census()) s += kv.first + "=" + std::to_string(kv.second) + " ";
    return s;
}
int open_fd_count()
{
    int n = 0;
    for (auto& f : k.fds)
        if (f) n++;
    return n + static_cast<int>(k.real_files.size());
}
bool is_open(int fd) { return get(fd) != nullptr; }
std::string describe_fd(int fd)
{
    File* f = get(fd);
    if (!f) return "fd " + std::to_string(fd) + " (closed)";
    return "fd " + std::to_string(fd) + " (" + f->kind_name() + ")";
}

// ---- ActorSock ---------------------------------------------------------------------------------
std::shared_ptr<ActorSock> ActorSock::connect(int port, Callback cb, const NetParams* to_server, const NetParams* from_server)
{
    auto c = new_conn(port, to_server, from_server);
    auto as = std::make_shared<ActorSock>();
    as->conn = c;
    as->side = 0;
    c->e[0].is_actor = true;
    c->e[0].cb = std::move(cb);
    i64 lat = c->d[0].np.latency_ns;
    std::weak_ptr<Conn> wc = c;
    sim::schedule_in(lat, [wc, port] {
        auto cc = wc.lock();
        if (!cc) return;
        if (cc->e[0].closed) return;
        auto it = k.ports.find(port);
        if (it == k.ports.end() || (!it->second.file && !it->second.actor_accept) || (it->second.file && !it->second.file->listening)) {
            cc->e[0].got_reset = true;
            cc->e[0].err = ECONNREFUSED;
            notify(cc, 0, 0, ActorSock::Refused);
            return;
        }
        if (it->second.file) {
            Listen* l = it->second.file;
            if (static_cast<int>(l->acceptq.size()) >= l->backlog + 1) {
                // SYN dropped; a real client would retransmit. We retry shortly.
                sim::schedule_in(1000 * 1000, [wc, port] {
                    (void)port;
                    auto c2 = wc.lock();
                    if (c2 && !c2->e[0].closed) { /* give up quietly: treated as refused */
                        c2->e[0].got_reset = true;
                        c2->e[0].err = ECONNREFUSED;
                        notify(c2, 0, 0, ActorSock::Refused);
                    }
                }, "net.syn-retry");
                return;
            }
            cc->e[0].established = true;
            cc->e[1].established = true;
            l->acceptq.push_back(cc);
            k.io_progress++;
            l->wake(EPOLLIN);
            i64 back = cc->d[1].np.latency_ns;
            sim::schedule_in(back, [wc] {
                if (auto c3 = wc.lock()) notify(c3, 0, 0, ActorSock::Connected);
            }, "net.synack");
        } else {
            // actor-to-actor connections are not needed
            cc->e[0].got_reset = true;
            cc->e[0].err = ECONNREFUSED;
            notify(cc, 0, 0, ActorSock::Refused);
        }
    }, "net.syn");
    return as;
}

void ActorSock::listen(int port, std::function<void(std::shared_ptr<ActorSock>)> on_accept)
{
    k.ports[port].actor_accept = std::move(on_accept);
}
void ActorSock::unlisten(int port)
{
    auto it = k.ports.find(port);
    if (it != k.ports.end()) it->second.actor_accept = nullptr;
}

size_t ActorSock::send(const char* data, size_t len)
{
    long r = conn_send(conn, side, data, len, -1);
    return r < 0 ? 0 : static_cast<size_t>(r);
}
size_t ActorSock::recv(char* buf, size_t len)
{
    long r = conn_recv(conn, side, buf, len, -1);
    return r < 0 ? 0 : static_cast<size_t>(r);
}
size_t ActorSock::readable() const { return conn->d[1 - side].rx_avail(); }
bool ActorSock::peer_fin() const { return conn->d[1 - side].fin_delivered && conn->d[1 - side].rx_avail() == 0; }
bool ActorSock::is_reset() const { return conn->e[side].got_reset; }
bool ActorSock::established() const { return conn->e[side].established && !conn->e[side].got_reset; }
void ActorSock::shutdown_wr() { conn_send_fin(conn, side); }
void ActorSock::close() { conn_close(conn, side, false); }
void ActorSock::abort() { conn_close(conn, side, true); }
void ActorSock::set_callback(Callback cb) { conn->e[side].cb = std::move(cb); }
void ActorSock::set_reading(bool) { }
u64 ActorSock::bytes_sent() const { return conn->d[side].accepted; }
u64 ActorSock::bytes_recv() const { return conn->d[1 - side].consumed; }
int ActorSock::id() const { return conn->id; }
int ActorSock::peer_fd() const
{
    Stream* f = conn->e[1 - side].file;
    return f ? f->fd : -1;
}

} // namespace simk

// ====================================================================================================
// System call wrappers
// ====================================================================================================
using namespace simk;

#define REAL(ret, name, ...) extern "C" ret __real_##name(__VA_ARGS__)

REAL(int, close, int);
REAL(ssize_t, read, int, void*, size_t);
REAL(ssize_t, write, int, const void*, size_t);
REAL(int, fcntl, int, int, ...);
REAL(int, socket, int, int, int);
REAL(int, bind, int, const struct sockaddr*, socklen_t);
REAL(int, listen, int, int);
REAL(int, accept4, int, struct sockaddr*, socklen_t*, int);
REAL(int, accept, int, struct sockaddr*, socklen_t*);
REAL(int, connect, int, const struct sockaddr*, socklen_t);
REAL(int, getsockname, int, struct sockaddr*, socklen_t*);
REAL(int, getpeername, int, struct sockaddr*, socklen_t*);
REAL(int, setsockopt, int, int, int, const void*, socklen_t);
REAL(int, getsockopt, int, int, int, void*, socklen_t*);
REAL(ssize_t, send, int, const void*, size_t, int);
REAL(ssize_t, recv, int, void*, size_t, int);
REAL(ssize_t, sendfile, int, int, off_t*, size_t);
REAL(int, shutdown, int, int);
REAL(int, epoll_create, int);
REAL(int, epoll_create1, int);
REAL(int, epoll_ctl, int, int, int, struct epoll_event*);
REAL(int, epoll_wait, int, struct epoll_event*, int, int);
REAL(int, eventfd, unsigned, int);
REAL(int, eventfd_read, int, eventfd_t*);
REAL(int, eventfd_write, int, eventfd_t);
REAL(int, timerfd_create, int, int);
REAL(int, timerfd_settime, int, int, const struct itimerspec*, struct itimerspec*);
REAL(int, getrusage, int, struct rusage*);
REAL(int, open, const char*, int, ...);

namespace {

inline bool simfd(int fd) { return sim::in_sim() && fd >= FD_BASE; }

int fail(int e)
{
    errno = e;
    return -1;
}

int bad_fd(const char* call, int fd)
{
    anomaly(std::string(call) + ".ebadf", std::string(call) + " on " + describe_fd(fd) + " by " + sim::self_name());
    return fail(EBADF);
}

void fill_addr(struct sockaddr* addr, socklen_t* len, int port)
{
    if (!addr || !len) return;
    struct sockaddr_in sa;
    memset(&sa, 0, sizeof sa);
    sa.sin_family = AF_INET;
    sa.sin_port = htons(static_cast<uint16_t>(port));
    sa.sin_addr.s_addr = htonl(INADDR_LOOPBACK);
    socklen_t n = std::min<socklen_t>(*len, sizeof sa);
    memcpy(addr, &sa, n);
    *len = sizeof sa;
}

long take_send_cap(Stream* s)
{
    SockStats& st = k.sstats[static_cast<size_t>(s->stats_idx)];
    int call = static_cast<int>(st.send_calls);
    for (auto& c : k.faults.send_caps) {
        if ((c.conn == -1 || c.conn == st.ordinal) && c.call == call) return c.cap;
    }
    return -1;
}

ssize_t stream_send(Stream* s, const char* data, size_t len)
{
    if (!s->conn) return fail(s->connecting ? EAGAIN : ENOTCONN);
    SockStats& st = k.sstats[static_cast<size_t>(s->stats_idx)];
    long cap = take_send_cap(s);
    if (cap >= 0) {
        sim::rec().fault(cap == 0 ? "would_block_injected" : "short_write_injected");
    } else if (len > 1 && k.faults.short_write_p > 0 && frng().chance(k.faults.short_write_p)) {
        cap = static_cast<long>(1 + frng().below(len - 1));
    } else if (k.faults.eagain_p > 0 && frng().chance(k.faults.eagain_p)) {
        cap = 0;
    }
    st.send_calls++;
    long r = conn_send(s->conn, s->side, data, len, cap);
    if (r < 0) {
        if (r == -EAGAIN) {
            st.send_eagain++;
            sim::rec().fault("would_block");
            int& streak = k.eagain_streak[sim::self_id()];
            if (++streak == 300)
                anomaly("send.eagain-spin", std::string(sim::self_name()) + " got EAGAIN from send/sendfile on " + describe_fd(s->fd) + " 300 times without calling epoll_wait in between");
        }
        return fail(static_cast<int>(-r));
    }
    if (static_cast<size_t>(r) < len) {
        st.send_short++;
        sim::rec().fault("short_write");
    }
    st.bytes_accepted += static_cast<u64>(r);
    return r;
}

} // namespace

extern "C" {

ssize_t __wrap_recv(int fd, void* buf, size_t len, int flags);
ssize_t __wrap_send(int fd, const void* buf, size_t len, int flags);

int __wrap_close(int fd)
{
    if (!sim::in_sim()) return __real_close(fd);
    if (fd < FD_BASE) {
        sim::point("sys.close.real");
        IgnoreScope ig;
        if (k.real_files.count(fd)) {
            k.real_files.erase(fd);
        } else if (fd > 2) {
            anomaly("close.untracked", "close of real descriptor " + std::to_string(fd) + " that the simulation did not open, by " + sim::self_name());
            return fail(EBADF);
        }
        return __real_close(fd);
    }
    sim::point("sys.close");
    IgnoreScope ig;
    File* f = get(fd);
    if (!f) return bad_fd("close", fd);
    sim::trace(sim::mix(0xc105e, static_cast<u64>(fd)));
    k.io_progress++;
    // remove from every epoll interest list
    for (auto& w : f->watchers) {
        auto it = w.ep->items.find(fd);
        if (it != w.ep->items.end()) {
            auto rit = std::find(w.ep->ready.begin(), w.ep->ready.end(), fd);
            if (rit != w.ep->ready.end()) w.ep->ready.erase(rit);
            w.ep->items.erase(it);
        }
    }
    f->watchers.clear();
    switch (f->kind) {
    case File::KEpoll: {
        Epoll* ep = static_cast<Epoll*>(f);
        for (auto& kv : ep->items) {
            auto& ws = kv.second.file->watchers;
            ws.erase(std::remove_if(ws.begin(), ws.end(), [ep](const Watch& w) { return w.ep == ep; }), ws.end());
        }
        break;
    }
    case File::KTimer:
        static_cast<TimerFd*>(f)->gen++;
        break;
    case File::KListen: {
        Listen* l = static_cast<Listen*>(f);
        auto it = k.ports.find(l->port);
        if (it != k.ports.end() && it->second.file == l) it->second.file = nullptr;
        for (auto& c : l->acceptq) {
            c->e[1].closed = true;
            do_reset(c, 0, ECONNRESET);
        }
        break;
    }
    case File::KStream: {
        Stream* s = static_cast<Stream*>(f);
        if (s->stats_idx >= 0) {
            k.sstats[static_cast<size_t>(s->stats_idx)].closed = true;
            k.sstats[static_cast<size_t>(s->stats_idx)].closed_at = sim::now_ns();
        }
        if (s->conn) conn_close(s->conn, s->side, false);
        break;
    }
    default: break;
    }
    bool was_stream = f->kind == File::KStream && static_cast<Stream*>(f)->conn != nullptr;
    k.fds[static_cast<size_t>(fd - FD_BASE)].reset();
    if (was_stream && k.close_observer) k.close_observer(fd);
    return 0;
}

ssize_t __wrap_read(int fd, void* buf, size_t n)
{
    if (!simfd(fd)) return __real_read(fd, buf, n);
    sim::point("sys.read");
    File* f;
    {
        IgnoreScope ig;
        f = get(fd);
        if (!f) return bad_fd("read", fd);
    }
    if (f->kind == File::KEvent) {
        EventFd* e = static_cast<EventFd*>(f);
        if (n < 8) return fail(EINVAL);
        uint64_t v;
        {
            IgnoreScope ig;
            if (e->counter == 0) {
                if (e->flags & O_NONBLOCK) return fail(EAGAIN);
                const std::function<bool()> pred = [e] { return e->counter > 0; };
                sim::block_until(pred, -1, "eventfd.read");
            }
            v = e->counter;
            e->counter = 0;
            k.io_progress++;
            sim::trace(sim::mix(0xe7d, v));
        }
        memcpy(buf, &v, 8);
        return 8;
    }
    if (f->kind == File::KTimer) {
        TimerFd* t = static_cast<TimerFd*>(f);
        if (n < 8) return fail(EINVAL);
        uint64_t v;
        {
            IgnoreScope ig;
            if (t->expirations == 0) {
                if (t->flags & O_NONBLOCK) return fail(EAGAIN);
                const std::function<bool()> pred = [t] { return t->expirations > 0; };
                sim::block_until(pred, -1, "timerfd.read");
            }
            v = t->expirations;
            t->expirations = 0;
            k.io_progress++;
        }
        memcpy(buf, &v, 8);
        return 8;
    }
    if (f->kind == File::KStream) return __wrap_recv(fd, buf, n, 0);
    return fail(EINVAL);
}

ssize_t __wrap_write(int fd, const void* buf, size_t n)
{
    if (!simfd(fd)) return __real_write(fd, buf, n);
    sim::point("sys.write");
    File* f;
    {
        IgnoreScope ig;
        f = get(fd);
        if (!f) return bad_fd("write", fd);
    }
    if (f->kind == File::KEvent) {
        if (n < 8) return fail(EINVAL);
        uint64_t v;
        memcpy(&v, buf, 8);
        IgnoreScope ig;
        EventFd* e = static_cast<EventFd*>(f);
        e->counter += v;
        k.io_progress++;
        sim::trace(sim::mix(0xe7e, static_cast<u64>(fd)));
        e->wake(EPOLLIN);
        return 8;
    }
    if (f->kind == File::KStream) return __wrap_send(fd, buf, n, 0);
    return fail(EINVAL);
}

int __wrap_eventfd_read(int fd, eventfd_t* v)
{
    if (!simfd(fd)) return __real_eventfd_read(fd, v);
    return __wrap_read(fd, v, sizeof *v) == static_cast<ssize_t>(sizeof *v) ? 0 : -1;
}
int __wrap_eventfd_write(int fd, eventfd_t v)
{
    if (!simfd(fd)) return __real_eventfd_write(fd, v);
    return __wrap_write(fd, &v, sizeof v) == static_cast<ssize_t>(sizeof v) ? 0 : -1;
}

int __wrap_fcntl(int fd, int cmd, ...)
{
    va_list ap;
    va_start(ap, cmd);
    long arg = va_arg(ap, long);
    va_end(ap);
    if (!simfd(fd)) return __real_fcntl(fd, cmd, arg);
    IgnoreScope ig;
    File* f = get(fd);
    if (!f) return bad_fd("fcntl", fd);
    switch (cmd) {
    case F_GETFL: return f->flags | O_RDWR;
    case F_SETFL: f->flags = static_cast<int>(arg) & O_NONBLOCK; return 0;
    case F_GETFD: return 0;
    case F_SETFD: return 0;
    default: return fail(EINVAL);
    }
}

int __wrap_socket(int domain, int type, int protocol)
{
    if (!sim::in_sim()) return __real_socket(domain, type, protocol);
    sim::point("sys.socket");
    IgnoreScope ig;
    // Whether it becomes a listening or a connecting socket is decided later; start as a stream
    // placeholder and convert on listen().
    auto s = std::make_unique<Stream>();
    if (type & SOCK_NONBLOCK) s->flags |= O_NONBLOCK;
    int fd = install(std::move(s));
    return fd;
}

int __wrap_bind(int fd, const struct sockaddr* addr, socklen_t len)
{
    if (!simfd(fd)) return __real_bind(fd, addr, len);
    sim::point("sys.bind");
    IgnoreScope ig;
    Stream* s = get_as<Stream>(fd, File::KStream);
    if (!s) return bad_fd("bind", fd);
    int port = 0;
    if (addr && addr->sa_family == AF_INET) port = ntohs(reinterpret_cast<const struct sockaddr_in*>(addr)->sin_port);
    else if (addr && addr->sa_family == AF_INET6) port = ntohs(reinterpret_cast<const struct sockaddr_in6*>(addr)->sin6_port);
    if (port == 0) port = k.next_ephemeral++;
    auto it = k.ports.find(port);
    if (it != k.ports.end() && (it->second.file || it->second.actor_accept)) return fail(EADDRINUSE);
    s->bound_port = port;
    return 0;
}

int __wrap_listen(int fd, int backlog)
{
    if (!simfd(fd)) return __real_listen(fd, backlog);
    sim::point("sys.listen");
    IgnoreScope ig;
    Stream* s = get_as<Stream>(fd, File::KStream);
    if (!s) return bad_fd("listen", fd);
    auto l = std::make_unique<Listen>();
    l->fd = fd;
    l->flags = s->flags;
    l->port = s->bound_port ? s->bound_port : k.next_ephemeral++;
    l->backlog = backlog > 0 ? backlog : 1;
    l->listening = true;
    l->watchers = s->watchers;
    Listen* lp = l.get();
    for (auto& w : lp->watchers) {
        auto wi = w.ep->items.find(fd);
        if (wi != w.ep->items.end()) wi->second.file = lp;
    }
    k.fds[static_cast<size_t>(fd - FD_BASE)] = std::move(l);
    k.ports[lp->port].file = lp;
    return 0;
}

int __wrap_accept4(int fd, struct sockaddr* addr, socklen_t* alen, int flags)
{
    if (!simfd(fd)) return __real_accept4(fd, addr, alen, flags);
    sim::point("sys.accept4");
    IgnoreScope ig;
    File* f0 = get(fd);
    if (!f0) return bad_fd("accept4", fd);
    Listen* l = get_as<Listen>(fd, File::KListen);
    if (!l) return fail(EINVAL);
    if (l->acceptq.empty()) {
        if (l->flags & O_NONBLOCK) return fail(EAGAIN);
        const std::function<bool()> pred = [l] { return !l->acceptq.empty(); };
        sim::block_until(pred, -1, "accept");
    }
    if (k.faults.accept_fail_p > 0 && frng().chance(k.faults.accept_fail_p)) {
        sim::rec().fault("accept_fail");
        // the connection at the head of the queue was aborted by the client
        auto c = l->acceptq.front();
        l->acceptq.pop_front();
        c->e[1].closed = true;
        do_reset(c, 0, ECONNRESET);
        return fail(ECONNABORTED);
    }
    auto c = l->acceptq.front();
    l->acceptq.pop_front();
    auto s = std::make_unique<Stream>();
    s->conn = c;
    s->side = 1;
    if (flags & SOCK_NONBLOCK) s->flags |= O_NONBLOCK;
    Stream* sp = s.get();
    int nfd = install(std::move(s));
    sp->stats_idx = new_stream_stats(nfd);
    k.sstats[static_cast<size_t>(sp->stats_idx)].conn_id = c->id;
    k.sstats[static_cast<size_t>(sp->stats_idx)].accepted = true;
    c->e[1].file = sp;
    fill_addr(addr, alen, c->client_port);
    sim::rec().stats["accepted"]++;
    k.io_progress++;
    return nfd;
}
int __wrap_accept(int fd, struct sockaddr* addr, socklen_t* alen)
{
    if (!simfd(fd)) return __real_accept(fd, addr, alen);
    return __wrap_accept4(fd, addr, alen, 0);
}

int __wrap_connect(int fd, const struct sockaddr* addr, socklen_t len)
{
    if (!simfd(fd)) return __real_connect(fd, addr, len);
    sim::point("sys.connect");
    IgnoreScope ig;
    Stream* s = get_as<Stream>(fd, File::KStream);
    if (!s) return bad_fd("connect", fd);
    if (s->conn) return fail(EISCONN);
    int port = 0;
    if (addr && addr->sa_family == AF_INET) port = ntohs(reinterpret_cast<const struct sockaddr_in*>(addr)->sin_port);
    else if (addr && addr->sa_family == AF_INET6) port = ntohs(reinterpret_cast<const struct sockaddr_in6*>(addr)->sin6_port);
    auto c = new_conn(port, nullptr, nullptr);
    s->conn = c;
    s->side = 0;
    s->connecting = true;
    s->stats_idx = new_stream_stats(fd);
    k.sstats[static_cast<size_t>(s->stats_idx)].conn_id = c->id;
    k.sstats[static_cast<size_t>(s->stats_idx)].port = port;
    c->e[0].file = s;
    i64 lat = c->d[0].np.latency_ns;
    std::weak_ptr<Conn> wc = c;
    sim::schedule_in(lat, [wc, port] {
        auto cc = wc.lock();
        if (!cc || cc->e[0].closed) return;
        auto it = k.ports.find(port);
        bool ok = it != k.ports.end() && (it->second.actor_accept || (it->second.file && it->second.file->listening));
        if (!ok) {
            cc->e[0].got_reset = true;
            cc->e[0].err = ECONNREFUSED;
            if (cc->e[0].file) cc->e[0].file->connecting = false;
            notify(cc, 0, 0, 0);
            if (cc->e[0].file) cc->e[0].file->wake(EPOLLERR);
            return;
        }
        cc->e[1].established = true;
        if (it->second.actor_accept) {
            auto as = std::make_shared<ActorSock>();
            as->conn = cc;
            as->side = 1;
            cc->e[1].is_actor = true;
            auto acc = it->second.actor_accept;
            acc(as);
        } else {
            Listen* l = it->second.file;
            l->acceptq.push_back(cc);
            l->wake(EPOLLIN);
        }
        k.io_progress++;
        i64 back = cc->d[1].np.latency_ns;
        sim::schedule_in(back, [wc] {
            auto c3 = wc.lock();
            if (!c3 || c3->e[0].closed) return;
            c3->e[0].established = true;
            if (c3->e[0].file) c3->e[0].file->connecting = false;
            notify(c3, 0, 0, 0);
        }, "net.synack");
    }, "net.syn");
    if (s->flags & O_NONBLOCK) return fail(EINPROGRESS);
    const std::function<bool()> pred = [c] { return c->e[0].established || c->e[0].got_reset; };
    sim::block_until(pred, -1, "connect");
    if (c->e[0].got_reset) {
        int e = c->e[0].err;
        c->e[0].err = 0;
        return fail(e ? e : ECONNREFUSED);
    }
    return 0;
}

int __wrap_getsockname(int fd, struct sockaddr* addr, socklen_t* len)
{
    if (!simfd(fd)) return __real_getsockname(fd, addr, len);
    IgnoreScope ig;
    File* f = get(fd);
    if (!f) return bad_fd("getsockname", fd);
    int port = 0;
    if (f->kind == File::KListen) port = static_cast<Listen*>(f)->port;
    else if (f->kind == File::KStream) {
        Stream* s = static_cast<Stream*>(f);
        port = s->conn ? (s->side == 0 ? s->conn->client_port : s->conn->server_port) : s->bound_port;
    }
    fill_addr(addr, len, port);
    return 0;
}
int __wrap_getpeername(int fd, struct sockaddr* addr, socklen_t* len)
{
    if (!simfd(fd)) return __real_getpeername(fd, addr, len);
    IgnoreScope ig;
    Stream* s = get_as<Stream>(fd, File::KStream);
    if (!s) return bad_fd("getpeername", fd);
    if (!s->conn) return fail(ENOTCONN);
    fill_addr(addr, len, s->side == 0 ? s->conn->server_port : s->conn->client_port);
    return 0;
}
int __wrap_setsockopt(int fd, int level, int opt, const void* val, socklen_t len)
{
    if (!simfd(fd)) return __real_setsockopt(fd, level, opt, val, len);
    IgnoreScope ig;
    if (!get(fd)) return bad_fd("setsockopt", fd);
    return 0;
}
int __wrap_getsockopt(int fd, int level, int opt, void* val, socklen_t* len)
{
    if (!simfd(fd)) return __real_getsockopt(fd, level, opt, val, len);
    IgnoreScope ig;
    Stream* s = get_as<Stream>(fd, File::KStream);
    if (!s) return bad_fd("getsockopt", fd);
    if (level == SOL_SOCKET && opt == SO_ERROR && val && len && *len >= sizeof(int)) {
        int e = 0;
        if (s->conn) {
            e = s->conn->e[s->side].err;
            s->conn->e[s->side].err = 0;
        }
        memcpy(val, &e, sizeof e);
        *len = sizeof e;
        return 0;
    }
    if (val && len) memset(val, 0, *len);
    return 0;
}

ssize_t __wrap_send(int fd, const void* buf, size_t len, int flags)
{
    if (!simfd(fd)) return __real_send(fd, buf, len, flags);
    sim::point("sys.send");
    IgnoreScope ig;
    File* f = get(fd);
    if (!f) return bad_fd("send", fd);
    Stream* s = get_as<Stream>(fd, File::KStream);
    if (!s) return fail(ENOTSOCK);
    ssize_t r = stream_send(s, static_cast<const char*>(buf), len);
    if (r < 0 && errno == EAGAIN && !(s->flags & O_NONBLOCK) && !(flags & MSG_DONTWAIT)) {
        const std::function<bool()> pred = [s] { return (s->poll_mask() & (EPOLLOUT | EPOLLERR | EPOLLHUP)) != 0; };
        sim::block_until(pred, -1, "send");
        return stream_send(s, static_cast<const char*>(buf), len);
    }
    if (r >= 0) sim::trace(sim::mix(0x5e4d, static_cast<u64>(r)));
    if (sim::verbose()) sim::logf("send(fd %d, %zu) = %zd%s by %s: %.40s", fd, len, r, r < 0 ? strerror(errno) : "", sim::self_name(), r > 0 ? std::string(static_cast<const char*>(buf), std::min<size_t>(static_cast<size_t>(r), 40)).c_str() : "");
    return r;
}

ssize_t __wrap_sendfile(int out_fd, int in_fd, off_t* offset, size_t count)
{
    if (!simfd(out_fd)) return __real_sendfile(out_fd, in_fd, offset, count);
    sim::point("sys.sendfile");
    IgnoreScope ig;
    File* f = get(out_fd);
    if (!f) return bad_fd("sendfile", out_fd);
    Stream* s = get_as<Stream>(out_fd, File::KStream);
    if (!s) return fail(EINVAL);
    if (in_fd >= FD_BASE) return fail(EINVAL);
    if (!k.real_files.count(in_fd)) {
        anomaly("sendfile.ebadf", "sendfile from descriptor " + std::to_string(in_fd) + " which is not open, by " + sim::self_name());
        return fail(EBADF);
    }
    size_t chunk = std::min<size_t>(count, 1 << 20);
    std::string tmp(chunk, '\0');
    off_t off = offset ? *offset : 0;
    ssize_t got = pread(in_fd, &tmp[0], chunk, off);
    if (got < 0) return -1;
    if (got == 0) return 0;
    ssize_t r = stream_send(s, tmp.data(), static_cast<size_t>(got));
    if (r > 0 && offset) *offset += r;
    if (r >= 0) sim::trace(sim::mix(0x5e4f, static_cast<u64>(r)));
    return r;
}

ssize_t __wrap_recv(int fd, void* buf, size_t len, int flags)
{
    if (!simfd(fd)) return __real_recv(fd, buf, len, flags);
    sim::point("sys.recv");
    Stream* s;
    long cap = -1;
    {
        IgnoreScope ig;
        File* f = get(fd);
        if (!f) return bad_fd("recv", fd);
        s = get_as<Stream>(fd, File::KStream);
        if (!s) return fail(ENOTSOCK);
        if (!s->conn) return fail(ENOTCONN);
        if (len > 1 && k.faults.short_read_p > 0 && frng().chance(k.faults.short_read_p)) {
            cap = static_cast<long>(1 + frng().below(len - 1));
        }
        if (s->stats_idx >= 0) k.sstats[static_cast<size_t>(s->stats_idx)].recv_calls++;
    }
    long r;
    {
        IgnoreScope ig;
        if (s->conn->d[1 - s->side].rx_avail() == 0 && !s->conn->d[1 - s->side].fin_delivered && !s->conn->e[s->side].got_reset
            && !(s->flags & O_NONBLOCK) && !(flags & MSG_DONTWAIT)) {
            const std::function<bool()> pred = [s] { return (s->poll_mask() & (EPOLLIN | EPOLLERR | EPOLLHUP)) != 0; };
            sim::block_until(pred, -1, "recv");
        }
    }
    // the copy into the caller's buffer counts as an access of the calling thread
    std::string tmp;
    {
        IgnoreScope ig;
        tmp.resize(len);
        r = conn_recv(s->conn, s->side, &tmp[0], len, cap);
        if (r > 0) {
            if (static_cast<size_t>(r) < len && s->conn->d[1 - s->side].rx_avail() > 0) sim::rec().fault("short_read");
            if (s->stats_idx >= 0) k.sstats[static_cast<size_t>(s->stats_idx)].bytes_received += static_cast<u64>(r);
            sim::trace(sim::hash_bytes(tmp.data(), static_cast<size_t>(r), 0x4ec5));
        }
    }
    if (sim::verbose()) sim::logf("recv(fd %d, %zu) = %ld by %s: %.40s", fd, len, r, sim::self_name(), r > 0 ? tmp.substr(0, 40).c_str() : "");
    if (r < 0) return fail(static_cast<int>(-r));
    if (r > 0) memcpy(buf, tmp.data(), static_cast<size_t>(r));
    return r;
}

int __wrap_shutdown(int fd, int how)
{
    if (!simfd(fd)) return __real_shutdown(fd, how);
    sim::point("sys.shutdown");
    IgnoreScope ig;
    Stream* s = get_as<Stream>(fd, File::KStream);
    if (!s) return bad_fd("shutdown", fd);
    if (!s->conn) return fail(ENOTCONN);
    if (how == SHUT_WR || how == SHUT_RDWR) conn_send_fin(s->conn, s->side);
    return 0;
}

int __wrap_epoll_create1(int flags)
{
    if (!sim::in_sim()) return __real_epoll_create1(flags);
    sim::point("sys.epoll_create");
    IgnoreScope ig;
    auto ep = std::make_unique<Epoll>();
    Epoll* p = ep.get();
    int fd = install(std::move(ep));
    EpollStats st;
    st.fd = fd;
    p->stats_idx = static_cast<int>(k.estats.size());
    k.estats.push_back(st);
    return fd;
}
int __wrap_epoll_create(int size)
{
    if (!sim::in_sim()) return __real_epoll_create(size);
    return __wrap_epoll_create1(0);
}

int __wrap_epoll_ctl(int epfd, int op, int fd, struct epoll_event* ev)
{
    if (!simfd(epfd)) return __real_epoll_ctl(epfd, op, fd, ev);
    sim::point("sys.epoll_ctl");
    uint32_t events = 0;
    uint64_t data = 0;
    if (ev && op != EPOLL_CTL_DEL) {
        events = ev->events;
        data = ev->data.u64;
    }
    IgnoreScope ig;
    Epoll* ep = get_as<Epoll>(epfd, File::KEpoll);
    if (!ep) return bad_fd("epoll_ctl", epfd);
    File* f = get(fd);
    if (!f) {
        anomaly(std::string("epoll_ctl.") + (op == EPOLL_CTL_DEL ? "del" : op == EPOLL_CTL_ADD ? "add" : "mod") + ".ebadf",
                "epoll_ctl on " + describe_fd(fd) + " by " + sim::self_name());
        return fail(EBADF);
    }
    sim::trace(sim::mix(0xc71 + static_cast<u64>(op), static_cast<u64>(fd)));
    auto it = ep->items.find(fd);
    switch (op) {
    case EPOLL_CTL_ADD: {
        if (it != ep->items.end()) return fail(EEXIST);
        EpItem item;
        item.fd = fd;
        item.file = f;
        item.events = events | EPOLLERR | EPOLLHUP;
        item.data = data;
        ep->items[fd] = item;
        f->watchers.push_back({ ep, fd });
        if (f->poll_mask() & item.events) ep->on_wake(fd, 0);
        return 0;
    }
    case EPOLL_CTL_MOD: {
        if (it == ep->items.end()) {
            anomaly("epoll_ctl.mod.enoent", "EPOLL_CTL_MOD on " + describe_fd(fd) + " which is not registered, by " + sim::self_name());
            return fail(ENOENT);
        }
        it->second.events = events | EPOLLERR | EPOLLHUP;
        it->second.data = data;
        if (f->poll_mask() & it->second.events) ep->on_wake(fd, 0);
        return 0;
    }
    case EPOLL_CTL_DEL: {
        if (it == ep->items.end()) {
            anomaly("epoll_ctl.del.enoent", "EPOLL_CTL_DEL on " + describe_fd(fd) + " which is not registered, by " + sim::self_name());
            return fail(ENOENT);
        }
        auto rit = std::find(ep->ready.begin(), ep->ready.end(), fd);
        if (rit != ep->ready.end()) ep->ready.erase(rit);
        ep->items.erase(it);
        auto& ws = f->watchers;
        ws.erase(std::remove_if(ws.begin(), ws.end(), [ep](const Watch& w) { return w.ep == ep; }), ws.end());
        return 0;
    }
    }
    return fail(EINVAL);
}

// ---- poll / ppoll on simulated descriptors (Pistache does not call them; a change that starts to block in poll() on a
// connection's socket must block in simulated time, not in the real kernel on a descriptor number it does not know)
int __real_poll(struct pollfd* fds, nfds_t n, int timeout);
int __wrap_poll(struct pollfd* fds, nfds_t n, int timeout)
{
    bool any_sim = false;
    if (sim::in_sim())
        for (nfds_t i = 0; i < n; ++i)
            if (fds[i].fd >= FD_BASE) any_sim = true;
    if (!any_sim) return __real_poll(fds, n, timeout);
    sim::point("sys.poll");
    IgnoreScope ig;
    k.eagain_streak[sim::self_id()] = 0;
    auto scan = [fds, n]() {
        int ready = 0;
        for (nfds_t i = 0; i < n; ++i) {
            fds[i].revents = 0;
            if (fds[i].fd < 0) continue;
            File* f = get(fds[i].fd);
            if (!f) {
                fds[i].revents = POLLNVAL;
            } else {
                uint32_t m = f->poll_mask();
                short want = static_cast<short>(fds[i].events | POLLERR | POLLHUP);
                short got = 0;
                if (m & EPOLLIN) got |= POLLIN;
                if (m & EPOLLOUT) got |= POLLOUT;
                if (m & EPOLLERR) got |= POLLERR;
                if (m & EPOLLHUP) got |= POLLHUP;
                if (m & EPOLLRDHUP) got |= POLLRDHUP;
                fds[i].revents = static_cast<short>(got & want);
            }
            if (fds[i].revents) ready++;
        }
        return ready;
    };
    int ready = scan();
    if (ready == 0 && timeout != 0) {
        const std::function<bool()> pred = [&scan] { return scan() > 0; };
        i64 deadline = timeout < 0 ? -1 : sim::now_ns() + static_cast<i64>(timeout) * 1000000LL;
        sim::block_until(pred, deadline, "poll");
        ready = scan();
    }
    return ready;
}
int __wrap_ppoll(struct pollfd* fds, nfds_t n, const struct timespec* ts, const sigset_t* /*mask*/)
{
    int timeout = -1;
    if (ts) timeout = static_cast<int>(ts->tv_sec * 1000 + ts->tv_nsec / 1000000);
    return __wrap_poll(fds, n, timeout);
}

int __wrap_epoll_wait(int epfd, struct epoll_event* evs, int maxevents, int timeout)
{
    if (!simfd(epfd)) return __real_epoll_wait(epfd, evs, maxevents, timeout);
    sim::point("sys.epoll_wait");
    std::vector<struct epoll_event> out;
    {
        IgnoreScope ig;
        Epoll* ep = get_as<Epoll>(epfd, File::KEpoll);
        if (!ep) return bad_fd("epoll_wait", epfd);
        if (maxevents <= 0) return fail(EINVAL);
        EpollStats& st = k.estats[static_cast<size_t>(ep->stats_idx)];
        st.waits++;
        k.eagain_streak[sim::self_id()] = 0;
        if (k.faults.epoll_eintr_p > 0 && frng().chance(k.faults.epoll_eintr_p)) {
            sim::rec().fault("epoll_eintr");
            return fail(EINTR);
        }
        if (!ep->has_ready() && timeout != 0) {
            const std::function<bool()> pred = [epfd] {
                Epoll* e = get_as<Epoll>(epfd, File::KEpoll);
                return !e || e->has_ready();
            };
            i64 deadline = timeout < 0 ? -1 : sim::now_ns() + static_cast<i64>(timeout) * 1000000LL;
            sim::block_until(pred, deadline, "epoll_wait");
            ep = get_as<Epoll>(epfd, File::KEpoll);
            if (!ep) return fail(EBADF);
        }
        size_t n = ep->ready.size();
        for (size_t i = 0; i < n && static_cast<int>(out.size()) < maxevents; ++i) {
            int fd = ep->ready.front();
            ep->ready.pop_front();
            EpItem& item = ep->items[fd];
            item.in_ready = false;
            uint32_t rev = item.file->poll_mask() & item.events;
            if (!rev) continue;
            struct epoll_event e;
            memset(&e, 0, sizeof e);
            e.events = rev;
            e.data.u64 = item.data;
            out.push_back(e);
            sim::trace(sim::mix(0xe9011, sim::mix(static_cast<u64>(fd), rev)));
            if (item.events & EPOLLONESHOT) {
                item.events &= (EPOLLET | EPOLLONESHOT | EPOLLEXCLUSIVE | EPOLLWAKEUP);
            } else if (!(item.events & EPOLLET)) {
                item.in_ready = true;
                ep->ready.push_back(fd);
            }
        }
        EpollStats& st2 = k.estats[static_cast<size_t>(ep->stats_idx)];
        if (!out.empty()) {
            st2.returns++;
            st2.events_reported += out.size();
            // busy-wait detector: the loop keeps being woken although nothing moves
            if (k.io_progress == ep->last_progress) {
                if (++ep->idle_returns == 200)
                    anomaly("epoll.idle-spin", std::string(sim::self_name()) + " returned from epoll_wait on " + describe_fd(epfd) + " 200 times in a row with events (last: " + describe_fd(static_cast<int>(out[0].data.u64 & 0xffffff)) + " mask " + std::to_string(out[0].events) + ") while no byte moved, no timer fired and no notification was written");
            } else {
                ep->idle_returns = 0;
                ep->last_progress = k.io_progress;
            }
        }
    }
    for (size_t i = 0; i < out.size(); ++i) evs[i] = out[i];
    return static_cast<int>(out.size());
}

int __wrap_eventfd(unsigned initval, int flags)
{
    if (!sim::in_sim()) return __real_eventfd(initval, flags);
    sim::point("sys.eventfd");
    IgnoreScope ig;
    auto e = std::make_unique<EventFd>();
    e->counter = initval;
    if (flags & EFD_NONBLOCK) e->flags |= O_NONBLOCK;
    return install(std::move(e));
}

int __wrap_timerfd_create(int clockid, int flags)
{
    if (!sim::in_sim()) return __real_timerfd_create(clockid, flags);
    sim::point("sys.timerfd_create");
    IgnoreScope ig;
    auto t = std::make_unique<TimerFd>();
    if (flags & TFD_NONBLOCK) t->flags |= O_NONBLOCK;
    return install(std::move(t));
}

static void timer_arm(int fd, u64 gen, i64 at)
{
    sim::schedule_at(at, [fd, gen] {
        TimerFd* t = get_as<TimerFd>(fd, File::KTimer);
        if (!t || t->gen != gen) return;
        t->expirations++;
        k.io_progress++;
        t->wake(EPOLLIN);
        if (t->interval > 0) timer_arm(fd, gen, sim::now_ns() + t->interval);
    }, "timerfd.expire");
}

int __wrap_timerfd_settime(int fd, int flags, const struct itimerspec* nv, struct itimerspec* ov)
{
    if (!simfd(fd)) return __real_timerfd_settime(fd, flags, nv, ov);
    sim::point("sys.timerfd_settime");
    IgnoreScope ig;
    File* f = get(fd);
    if (!f) return bad_fd("timerfd_settime", fd);
    TimerFd* t = get_as<TimerFd>(fd, File::KTimer);
    if (!t) return fail(EINVAL);
    if (ov) memset(ov, 0, sizeof *ov);
    t->gen++;
    t->expirations = 0;
    i64 val = static_cast<i64>(nv->it_value.tv_sec) * 1000000000LL + nv->it_value.tv_nsec;
    t->interval = static_cast<i64>(nv->it_interval.tv_sec) * 1000000000LL + nv->it_interval.tv_nsec;
    if (val > 0) {
        i64 at = (flags & TFD_TIMER_ABSTIME) ? val - 1000000000000LL : sim::now_ns() + val;
        timer_arm(fd, t->gen, at);
    }
    return 0;
}

int __wrap_getrusage(int who, struct rusage* ru)
{
    if (!sim::in_sim()) return __real_getrusage(who, ru);
    memset(ru, 0, sizeof *ru);
    return 0;
}

int __wrap_open(const char* path, int flags, ...)
{
    va_list ap;
    va_start(ap, flags);
    int mode = va_arg(ap, int);
    va_end(ap);
    if (!sim::in_sim()) return __real_open(path, flags, mode);
    sim::point("sys.open");
    int fd = __real_open(path, flags, mode);
    IgnoreScope ig;
    if (fd >= 0) k.real_files.insert(fd);
    return fd;
}

} // extern "C"
