// Self-tests of the machinery (not a property check).
//  selftest_race: two threads update a counter; with plan.race=true without any lock (ThreadSanitizer must
//  report it, and lost updates must be observable under some schedules), with race=false under a mutex
//  (ThreadSanitizer must stay silent and the count must be exact).
#include <mutex>
#include <thread>

#include "scenario.h"

using namespace scen;

namespace {

Json gen(sim::Rng& rng, int)
{
    Json p = Json::object();
    p["race"] = false;
    p["iters"] = static_cast<int>(rng.range(2, 6));
    gen_sched(rng, p, 100);
    return p;
}

int g_counter;

void run(const Json& plan)
{
    bool race = plan.flag("race");
    int iters = std::max(1, std::min(50, static_cast<int>(plan.num("iters", 3))));
    g_counter = 0;
    std::mutex m;
    auto body = [&] {
        for (int i = 0; i < iters; ++i) {
            if (race) {
                int v = g_counter;
                sim::point("selftest.between-load-and-store");
                g_counter = v + 1;
            } else {
                std::lock_guard<std::mutex> g(m);
                int v = g_counter;
                sim::point("selftest.between-load-and-store");
                g_counter = v + 1;
            }
        }
    };
    std::thread a(body), b(body);
    a.join();
    b.join();
    sim::rec().stats["count"] = g_counter;
    if (g_counter != 2 * iters) sim::rec().violation("SELF.lost-update", "counter is " + std::to_string(g_counter) + " instead of " + std::to_string(2 * iters));
}

Scenario sc { "selftest_race", "SELF", "machinery self-test: racy / locked counter", gen, run };
Registrar reg(&sc);

} // namespace
