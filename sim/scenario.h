// Scenario registry and common helpers.
#pragma once
#include <functional>
#include <string>
#include <vector>

#include "json.h"
#include "simkernel.h"
#include "simrt.h"

namespace scen {

using sj::Json;

struct Scenario {
    const char* name;        // e.g. "c13_queue"
    const char* property;    // e.g. "C13"
    const char* what;        // one line
    // Generate a plan from the plan stream. tier: 0 quick, 1 thorough. Must call gen_sched().
    Json (*gen)(sim::Rng& rng, int tier);
    // Execute the plan inside the simulation (called on simulated thread 0 between begin_run and end_run).
    void (*run)(const Json& plan);
};

std::vector<Scenario*>& registry();
struct Registrar {
    explicit Registrar(Scenario* s) { registry().push_back(s); }
};

// Draw the scheduler configuration for a run and store it under plan["sched"].
void gen_sched(sim::Rng& rng, Json& plan, sim::u64 horizon, bool allow_stalls = false);
sim::Config sched_from_plan(const Json& plan);

// Wait (in simulated time) until pred holds; returns false on time-out.
bool wait_for(const std::function<bool()>& pred, sim::i64 timeout_ns, const char* what);

// build/scratch next to the variant directories of the running binary (build/<variant>/pistache_sim)
std::string scratch_root();

inline std::string hex(const std::string& s, size_t max = 64)
{
    static const char* d = "0123456789abcdef";
    std::string o;
    for (size_t i = 0; i < s.size() && i < max; ++i) {
        o.push_back(d[(static_cast<unsigned char>(s[i]) >> 4) & 15]);
        o.push_back(d[static_cast<unsigned char>(s[i]) & 15]);
    }
    if (s.size() > max) o += "..";
    return o;
}

} // namespace scen
