// simrt.cc — see simrt.h
#include "simrt.h"

#include <algorithm>
#include <cerrno>
#include <chrono>
#include <condition_variable>
#include <cstdarg>
#include <cstdio>
#include <cstdlib>
#include <cctype>
#include <cstring>
#include <exception>
#include <memory>
#include <mutex>
#include <thread>
#include <typeinfo>

#include <cxxabi.h>
#include <pthread.h>
#include <sys/syscall.h>
#include <time.h>
#include <unistd.h>

extern "C" {
void sim_baton_park(int* word);
void sim_baton_unpark(int* word);
unsigned long sim_raw_load(const unsigned long* p);
void sim_raw_store(unsigned long* p, unsigned long v);
}

#ifdef SIM_TSAN
extern "C" {
void AnnotateIgnoreReadsBegin(const char* f, int l);
void AnnotateIgnoreReadsEnd(const char* f, int l);
void AnnotateIgnoreWritesBegin(const char* f, int l);
void AnnotateIgnoreWritesEnd(const char* f, int l);
void AnnotateIgnoreSyncBegin(const char* f, int l);
void AnnotateIgnoreSyncEnd(const char* f, int l);
}
#endif

namespace sim {

// depth of simulator/harness regions on this thread (used by the atomic-operation yield points)
static __thread int t_ignore_depth = 0;
int ignore_depth() { return t_ignore_depth; }

IgnoreScope::IgnoreScope()
{
    t_ignore_depth++;
#ifdef SIM_TSAN
    AnnotateIgnoreReadsBegin(__FILE__, __LINE__);
    AnnotateIgnoreWritesBegin(__FILE__, __LINE__);
    AnnotateIgnoreSyncBegin(__FILE__, __LINE__);
#endif
}
IgnoreScope::~IgnoreScope()
{
    t_ignore_depth--;
#ifdef SIM_TSAN
    AnnotateIgnoreSyncEnd(__FILE__, __LINE__);
    AnnotateIgnoreWritesEnd(__FILE__, __LINE__);
    AnnotateIgnoreReadsEnd(__FILE__, __LINE__);
#endif
}

namespace {

    enum ThrState { Runnable, Blocked, Finished };

    struct Thr {
        int id = 0;
        int go = 0; // baton word
        ThrState st = Runnable;
        const std::function<bool()>* pred = nullptr;
        i64 deadline = -1;
        const char* what = "";
        std::string name;
        pthread_t handle {};
        bool has_handle = false;
        u64 prio = 0;
        const char* last_site = "";
        const void* wait_obj = nullptr; // mutex / thread the thread is blocked on
    };

    struct Event {
        i64 t;
        u64 seq;
        u64 id;
        std::function<void()> fn;
        const char* tag;
    };
    struct EventCmp {
        bool operator()(const Event& a, const Event& b) const
        {
            if (a.t != b.t) return a.t > b.t;
            return a.seq > b.seq;
        }
    };

    struct MutexState {
        int owner = -1;
        int serial = 0; // order of first acquisition in this run (addresses are not deterministic)
    };
    struct CvWaiter {
        int tid;
        bool signaled;
    };

    struct Run {
        bool active = false;
        Config cfg;
        Rng sched { 1 };
        Rng net { 1 };
        std::vector<std::unique_ptr<Thr>> threads;
        int current = 0;
        i64 now = 0;
        u64 steps = 0;
        u64 multi = 0;
        u64 preempt = 0;
        u64 thash = 0;
        u64 shash = 0;
        std::vector<Event> events; // heap
        u64 ev_seq = 0;
        u64 ev_id = 0;
        std::vector<u64> cancelled;
        std::map<const void*, MutexState> mutexes;
        int mutex_serial = 0;
        std::map<const void*, std::vector<CvWaiter>> cvs;
        std::vector<u64> pct_points;
        u64 pct_low = 0;
        size_t guided_pos = 0;
        u64 pauses = 0;
        i64 wall_offset = 0;   // what the wall clock (system_clock) is ahead of / behind the monotonic clock by: stepped by the "clock_step" fault
        std::vector<int> choices;
        bool firing = false;
    };

    Run g;
    Recorder g_rec;
    std::function<void(const std::string&)> g_fatal;
    std::function<std::pair<std::string, std::string>(const std::string&)> g_fatal_cls;
    unsigned long g_progress = 0; // read by the watchdog
    unsigned long g_run_active = 0;
    bool g_verbose = false;
    bool g_verbose_init = false;

    __thread Thr* t_self = nullptr;

    void fire_due();

    bool thr_enabled(Thr* t)
    {
        if (t->st == Runnable) return true;
        if (t->st == Blocked) {
            if (t->deadline >= 0 && g.now >= t->deadline) return true;
            if (t->pred && (*t->pred)()) return true;
        }
        return false;
    }

    i64 next_wakeup_time()
    {
        i64 best = -1;
        if (!g.events.empty()) best = g.events.front().t;
        for (auto& t : g.threads) {
            if (t->st == Blocked && t->deadline >= 0) {
                if (best < 0 || t->deadline < best) best = t->deadline;
            }
        }
        return best;
    }

    Thr* choose(std::vector<Thr*>& en, Thr* self)
    {
        if (en.size() == 1) return en[0];
        g.multi++;
        Thr* pick = nullptr;
        auto default_rule = [&]() -> Thr* {
            Thr* best = nullptr;
            for (Thr* t : en) {
                if (t == self) return t;
                if (!best || t->id < best->id) best = t;
            }
            return best;
        };
        if (g.guided_pos < g.cfg.guided.size()) {
            int want = g.cfg.guided[g.guided_pos++];
            for (Thr* t : en)
                if (t->id == want) pick = t;
            if (!pick && g.cfg.guided_default_tail) pick = default_rule();
        } else if (g.cfg.guided_default_tail) {
            pick = default_rule();
        }
        if (!pick) {
            switch (g.cfg.policy) {
            case PolicyPct: {
                // priority change points
                while (!g.pct_points.empty() && g.steps >= g.pct_points.back()) {
                    g.pct_points.pop_back();
                    if (self) self->prio = g.pct_low++; // lowest so far
                }
                for (Thr* t : en)
                    if (!pick || t->prio > pick->prio) pick = t;
                break;
            }
            case PolicySticky: {
                bool self_en = false;
                for (Thr* t : en)
                    if (t == self) self_en = true;
                if (self_en && g.sched.chance(g.cfg.sticky_p)) pick = self;
                else pick = en[g.sched.below(en.size())];
                break;
            }
            default:
                pick = en[g.sched.below(en.size())];
            }
        }
        if (g.cfg.record_choices) g.choices.push_back(pick->id);
        return pick;
    }

    // Core: called by the thread holding the baton (self) at a decision point. self may be
    // Runnable (a yield), Blocked (pred/deadline set) or Finished.
    void schedule(Thr* self, const char* site)
    {
        g.steps++;
        sim_raw_store(&g_progress, g.steps);
        if (g.steps > g.cfg.max_steps || g.now > g.cfg.max_sim_ns) {
            const char* verdict = g.steps > g.cfg.max_steps ? "livelock" : "timeout";
            std::pair<std::string, std::string> cls { g.steps > g.cfg.max_steps ? "sim.livelock:step-budget" : "sim.timeout:simulated-time-budget", "" };
            if (g_fatal_cls) {
                auto c = g_fatal_cls(verdict);
                if (!c.first.empty()) cls = c;
            }
            fatal(verdict, cls.first, cls.second + std::string("\nbudget exceeded at site ") + site + "\n" + describe_threads());
        }
        // time passes
        i64 q = g.cfg.quantum_max_ns > 0 ? static_cast<i64>(g.sched.below(static_cast<u64>(g.cfg.quantum_max_ns) + 1)) : 0;
        if (g.cfg.stall_p > 0 && g.sched.chance(g.cfg.stall_p)) {
            q += static_cast<i64>(g.sched.below(static_cast<u64>(g.cfg.stall_max_ns)));
            g_rec.fault("thread_stall");
        }
        g.now += q;
        // fault: the thread at this decision point is descheduled for a while (everybody else runs on, time passes,
        // packets arrive) - unlike a thread stall, which stops the whole world
        bool pause_here = false;
        if (self && self->st == Runnable && g.pauses < g.cfg.max_pauses) {
            if (g.cfg.pause_p > 0 && g.sched.chance(g.cfg.pause_p)) pause_here = true;
            // "hot" sites: in this run, decision points whose site name falls into the chosen hash buckets pause often
            else if (g.cfg.hot_buckets && ((g.cfg.hot_buckets >> (hash_str(site) & 15)) & 1) && g.sched.chance(g.cfg.hot_pause_p)) pause_here = true;
            else if (!g.cfg.hot_sites.empty() && (g.cfg.hot_thread_prefix.empty() || self->name.compare(0, g.cfg.hot_thread_prefix.size(), g.cfg.hot_thread_prefix) == 0) && std::find(g.cfg.hot_sites.begin(), g.cfg.hot_sites.end(), std::string(site)) != g.cfg.hot_sites.end() && g.sched.chance(g.cfg.hot_pause_p)) pause_here = true;
        }
        if (pause_here) {
            g.pauses++;
            self->st = Blocked;
            self->pred = nullptr;
            self->deadline = g.now + 1 + static_cast<i64>(g.sched.below(static_cast<u64>(std::max<i64>(1, g.cfg.pause_max_ns))));
            self->what = "paused (descheduled)";
            g_rec.fault("thread_pause");
        }

        Thr* next = nullptr;
        std::vector<Thr*> en;
        u64 idle_rounds = 0;
        for (;;) {
            fire_due();
            en.clear();
            for (auto& t : g.threads)
                if (thr_enabled(t.get())) en.push_back(t.get());
            if (!en.empty()) {
                next = choose(en, self);
                break;
            }
            i64 t = next_wakeup_time();
            if (t < 0) {
                std::pair<std::string, std::string> cls { "sim.deadlock:no-runnable-thread", "" };
                if (g_fatal_cls) {
                    auto c = g_fatal_cls("deadlock");
                    if (!c.first.empty()) cls = c;
                }
                fatal("deadlock", cls.first, cls.second + "\n" + describe_threads());
            }
            if (t > g.now) g.now = t;
            // nobody can run and only (periodic) events keep coming: the simulated-time budget ends the run
            if (g.now > g.cfg.max_sim_ns || ++idle_rounds > 20000000ULL) {
                std::pair<std::string, std::string> cls { "sim.timeout:simulated-time-budget", "" };
                if (g_fatal_cls) {
                    auto c = g_fatal_cls("timeout");
                    if (!c.first.empty()) cls = c;
                }
                fatal("timeout", cls.first, cls.second + std::string("\nno thread can run; budget exceeded while waiting at site ") + site + "\n" + describe_threads());
            }
        }
        if (en.size() > 1) {
            g.shash = mix(g.shash, mix(static_cast<u64>(next->id), hash_str(site)));
            if (next != self && self && self->st == Runnable) g.preempt++;
        }
        g.thash = mix(g.thash, mix(static_cast<u64>(next->id) * 1315423911u + static_cast<u64>(g.now), hash_str(site)));
        if (g_verbose) {
            fprintf(stderr, "[%12lld] step %llu t%d@%s -> t%d (%zu enabled)\n", static_cast<long long>(g.now),
                    static_cast<unsigned long long>(g.steps), self ? self->id : -1, site, next->id, en.size());
        }
        if (next->st == Blocked) {
            next->st = Runnable;
        }
        g.current = next->id;
        if (next == self) return;
        sim_baton_unpark(&next->go);
        if (self->st != Finished) sim_baton_park(&self->go);
    }

    void fire_due()
    {
        if (g.firing) return; // events scheduling further due events are handled by the outer loop
        g.firing = true;
        while (!g.events.empty() && g.events.front().t <= g.now) {
            std::pop_heap(g.events.begin(), g.events.end(), EventCmp());
            Event ev = std::move(g.events.back());
            g.events.pop_back();
            auto it = std::find(g.cancelled.begin(), g.cancelled.end(), ev.id);
            if (it != g.cancelled.end()) {
                g.cancelled.erase(it);
                continue;
            }
            g.thash = mix(g.thash, mix(static_cast<u64>(ev.t), hash_str(ev.tag)));
            if (g_verbose) fprintf(stderr, "[%12lld] event %s\n", static_cast<long long>(g.now), ev.tag);
            ev.fn();
        }
        g.firing = false;
    }

    void thread_exit_handoff(Thr* self)
    {
        IgnoreScope ig;
        self->st = Finished;
        schedule(self, "thread.exit");
    }

    // ---- std::thread state wrapper
    struct WrapState : std::thread::_State {
        std::unique_ptr<std::thread::_State> inner;
        Thr* thr;
        WrapState(std::unique_ptr<std::thread::_State> in, Thr* t)
            : inner(std::move(in))
            , thr(t)
        { }
        void _M_run() override
        {
            t_self = thr;
            sim_baton_park(&thr->go);
            inner->_M_run();
            inner.reset();
            Thr* me = thr;
            t_self = nullptr; // from here on this real thread only runs exit code
            thread_exit_handoff(me);
        }
    };

    void terminate_handler()
    {
        std::string what = "unknown";
        if (auto e = std::current_exception()) {
            try {
                std::rethrow_exception(e);
            } catch (const std::exception& ex) {
                int st = 0;
                char* dn = abi::__cxa_demangle(typeid(ex).name(), nullptr, nullptr, &st);
                what = std::string(dn ? dn : typeid(ex).name()) + ": " + ex.what();
                free(dn);
            } catch (...) {
                what = "non-std exception";
            }
        } else {
            what = "std::terminate without active exception";
        }
        std::string who = t_self ? t_self->name : "unregistered-thread";
        std::string tag;
        for (char c : what) {
            if (std::isalnum(static_cast<unsigned char>(c))) tag.push_back(static_cast<char>(std::tolower(static_cast<unsigned char>(c))));
            else if (!tag.empty() && tag.back() != '-') tag.push_back('-');
            if (tag.size() >= 70) break;
        }
        fatal("terminate", "sim.terminate:" + tag, "thread " + who + ": " + what);
    }

} // namespace

Recorder& rec() { return g_rec; }

void Recorder::violation(const std::string& sig, const std::string& detail)
{
    for (auto& v : violations)
        if (v.sig == sig) return; // first instance per signature is enough
    violations.push_back({ sig, detail });
}

bool verbose()
{
    if (!g_verbose_init) {
        const char* v = getenv("SIM_VERBOSE");
        g_verbose = v && *v && *v != '0';
        g_verbose_init = true;
    }
    return g_verbose;
}

void logf(const char* fmt, ...)
{
    if (!verbose()) return;
    va_list ap;
    va_start(ap, fmt);
    fprintf(stderr, "[%12lld] ", static_cast<long long>(g.now));
    vfprintf(stderr, fmt, ap);
    fputc('\n', stderr);
    va_end(ap);
}

void begin_run(const Config& cfg)
{
    IgnoreScope ig;
    verbose();
    static bool term_set = false;
    if (!term_set) {
        std::set_terminate(terminate_handler);
        term_set = true;
    }
    g = Run();
    g_fatal_cls = nullptr;
    g.active = true;
    g.cfg = cfg;
    g.sched = Rng(mix(cfg.sched_seed, 0x5c4ed));
    g.net = Rng(mix(cfg.sched_seed, 0x2e7));
    auto t0 = std::make_unique<Thr>();
    t0->id = 0;
    t0->name = "driver";
    t0->prio = g.sched.next() >> 1;
    t_self = t0.get();
    g.threads.push_back(std::move(t0));
    if (cfg.policy == PolicyPct) {
        for (int i = 0; i < cfg.pct_depth; ++i) g.pct_points.push_back(1 + g.sched.below(cfg.pct_horizon ? cfg.pct_horizon : 1));
        std::sort(g.pct_points.begin(), g.pct_points.end(), std::greater<u64>());
    }
    sim_raw_store(&g_run_active, 1);
}

bool end_run()
{
    IgnoreScope ig;
    bool ok = true;
    for (auto& t : g.threads) {
        if (t->id != 0 && t->st != Finished) {
            ok = false;
            g_rec.violation("sim.leak:thread-alive", "thread " + t->name + " still alive at end of run: " + t->what);
        }
    }
    g_rec.stats["steps"] = static_cast<i64>(g.steps);
    g_rec.stats["sim_ns"] = g.now;
    g_rec.stats["multi_choice"] = static_cast<i64>(g.multi);
    g_rec.stats["preemptions"] = static_cast<i64>(g.preempt);
    g_rec.stats["threads"] = static_cast<i64>(g.threads.size());
    g.active = false;
    sim_raw_store(&g_run_active, 0);
    t_self = nullptr;
    return ok;
}

bool in_sim() { return g.active && t_self != nullptr; }
int self_id() { return t_self ? t_self->id : -1; }
const char* self_name() { return t_self ? t_self->name.c_str() : "?"; }
void set_self_name(const char* name)
{
    if (t_self) t_self->name = name;
}
int thread_count() { return static_cast<int>(g.threads.size()); }
int live_thread_count()
{
    int n = 0;
    for (auto& t : g.threads)
        if (t->st != Finished) n++;
    return n;
}

void set_fatal_handler(std::function<void(const std::string&)> fn) { g_fatal = std::move(fn); }
void set_fatal_classifier(std::function<std::pair<std::string, std::string>(const std::string&)> fn) { g_fatal_cls = std::move(fn); }

std::string describe_threads()
{
    std::string s;
    for (auto& t : g.threads) {
        s += "  t" + std::to_string(t->id) + " " + t->name + ": ";
        s += t->st == Runnable ? "runnable" : t->st == Blocked ? (std::string("blocked in ") + t->what) : "finished";
        if (t->st == Blocked && t->wait_obj) {
            auto mi = g.mutexes.find(t->wait_obj);
            if (mi != g.mutexes.end() && mi->second.owner >= 0) {
                char b[96];
                snprintf(b, sizeof b, " [mutex #%d held by t%d]", mi->second.serial, mi->second.owner);
                s += b;
            }
        }
        s += std::string(" (last site ") + t->last_site + ")\n";
    }
    return s;
}

void fatal(const std::string& verdict, const std::string& sig, const std::string& detail)
{
    // the run is over: what follows is the harness's own bookkeeping, on whichever thread noticed the end
    IgnoreScope ig;
    g_rec.stats["steps"] = static_cast<i64>(g.steps);
    g_rec.stats["sim_ns"] = g.now;
    g_rec.stats["multi_choice"] = static_cast<i64>(g.multi);
    g_rec.stats["preemptions"] = static_cast<i64>(g.preempt);
    g_rec.stats["threads"] = static_cast<i64>(g.threads.size());
    if (!sig.empty()) g_rec.violation(sig, detail);
    if (g_fatal) g_fatal(verdict);
    fflush(stdout);
    fflush(stderr);
    // leave without running exit hooks (the sanitizers' own end-of-process checks would turn a deliberate
    // abandonment of parked threads into a report and change the exit status)
    syscall(SYS_exit_group, 3);
    _exit(3);
}

void point(const char* site, const void* addr)
{
    (void)addr;
    Thr* self = t_self;
    if (!self || !g.active || g.firing) return;
    IgnoreScope ig;
    self->last_site = site;
    schedule(self, site);
}

bool block_until(const std::function<bool()>& pred, i64 deadline_ns, const char* what)
{
    Thr* self = t_self;
    if (!self || !g.active || g.firing) {
        fprintf(stderr, "sim: block_until outside simulation or inside an event handler (%s)\n", what);
        abort();
    }
    IgnoreScope ig;
    self->st = Blocked;
    self->pred = &pred;
    self->deadline = deadline_ns;
    self->what = what;
    self->last_site = what;
    schedule(self, what);
    self->pred = nullptr;
    self->deadline = -1;
    self->what = "";
    return pred();
}

bool quiesce(i64 timeout_ns)
{
    Thr* self = t_self;
    const std::function<bool()> pred = [self] {
        for (auto& t : g.threads) {
            if (t.get() == self || t->st == Finished) continue;
            // quiet: waiting without a deadline for something that has not happened (epoll_wait, a condition, a join);
            // a thread that was descheduled in the middle of its work has a deadline and is not quiet
            if (t->st == Blocked && t->deadline < 0 && !(t->pred && (*t->pred)())) continue;
            return false;
        }
        return true;
    };
    return block_until(pred, now_ns() + timeout_ns, "driver.quiesce");
}

void sleep_ns(i64 ns)
{
    static const std::function<bool()> never = [] { return false; };
    block_until(never, now_ns() + (ns < 0 ? 0 : ns), "sleep");
}

i64 now_ns() { return g.now; }
i64 wall_offset_ns() { return g.wall_offset; }
void step_wall_clock(i64 delta_ns)
{
    IgnoreScope ig;
    g.wall_offset += delta_ns;
    g_rec.fault("clock_step");
    if (g_verbose) logf("wall clock stepped by %lld ms", static_cast<long long>(delta_ns / 1000000));
}

u64 schedule_at(i64 t_ns, std::function<void()> fn, const char* tag)
{
    IgnoreScope ig;
    Event ev;
    ev.t = t_ns < g.now ? g.now : t_ns;
    ev.seq = g.ev_seq++;
    ev.id = ++g.ev_id;
    ev.fn = std::move(fn);
    ev.tag = tag;
    u64 id = ev.id;
    g.events.push_back(std::move(ev));
    std::push_heap(g.events.begin(), g.events.end(), EventCmp());
    return id;
}
u64 schedule_in(i64 dt_ns, std::function<void()> fn, const char* tag) { return schedule_at(g.now + dt_ns, std::move(fn), tag); }
void cancel(u64 id)
{
    if (id) g.cancelled.push_back(id);
}

void trace(u64 x) { g.thash = mix(g.thash, x); }
void trace_s(const char* s) { g.thash = mix(g.thash, hash_str(s)); }
u64 trace_hash() { return g.thash; }
u64 sched_hash() { return g.shash; }
u64 steps() { return g.steps; }
u64 multi_choice_points() { return g.multi; }
u64 preemptions() { return g.preempt; }
const std::vector<int>& recorded_choices() { return g.choices; }
Rng& sched_rng() { return g.sched; }
Rng& net_rng() { return g.net; }

// ---- watchdog -----------------------------------------------------------------
namespace {
    int g_wd_secs = 0;
    // A run hangs when the simulated thread that holds the baton neither reaches a decision point nor a
    // heartbeat for g_wd_secs seconds of the PROCESS'S CPU TIME (only one simulated thread runs at a time, so
    // that is the time the thread has really been computing: a machine that is merely overloaded does not
    // make a run hang), or for 12 x g_wd_secs seconds of wall-clock time (a thread stuck in a real blocking call).
    i64 cpu_now_ns()
    {
        struct timespec ts;
        clock_gettime(CLOCK_PROCESS_CPUTIME_ID, &ts);
        return static_cast<i64>(ts.tv_sec) * 1000000000LL + ts.tv_nsec;
    }
    void* watchdog_main(void*)
    {
        unsigned long last = sim_raw_load(&g_progress);
        i64 cpu_at_progress = cpu_now_ns();
        int idle_ticks = 0;
        for (;;) {
            struct timespec ts { 0, 200 * 1000 * 1000 };
            clock_nanosleep(CLOCK_MONOTONIC, 0, &ts, nullptr);
            unsigned long cur = sim_raw_load(&g_progress);
            if (sim_raw_load(&g_run_active) && cur == last) {
                ++idle_ticks;
                i64 cpu_idle = cpu_now_ns() - cpu_at_progress;
                if (cpu_idle >= static_cast<i64>(g_wd_secs) * 1000000000LL || idle_ticks >= g_wd_secs * 5 * 12) {
                    if (g_fatal) g_fatal("hang");
                    fflush(stdout);
                    syscall(SYS_exit_group, 4);
                    _exit(4);
                }
            } else {
                idle_ticks = 0;
                last = cur;
                cpu_at_progress = cpu_now_ns();
            }
        }
        return nullptr;
    }
}
void heartbeat()
{
    // progress that is not a decision point: a harness loop around calls into the code under test
    sim_raw_store(&g_progress, sim_raw_load(&g_progress) + (1UL << 32));
}

void start_watchdog(int secs)
{
    static bool started = false;
    if (started) return;
    started = true;
    g_wd_secs = secs;
    pthread_t th;
    pthread_attr_t at;
    pthread_attr_init(&at);
    pthread_attr_setdetachstate(&at, PTHREAD_CREATE_DETACHED);
    pthread_create(&th, &at, watchdog_main, nullptr);
}

// ---- helpers used by the wrappers below ------------------------------------------
namespace {
    Thr* new_thread_record()
    {
        auto t = std::make_unique<Thr>();
        t->id = static_cast<int>(g.threads.size());
        t->name = "t" + std::to_string(t->id);
        t->prio = g.sched.next() >> 1;
        // fault: a thread that takes long to start (its creator and everybody else run on meanwhile)
        if (g.cfg.start_delay_p > 0 && g.sched.chance(g.cfg.start_delay_p)) {
            t->st = Blocked;
            t->pred = nullptr;
            t->deadline = g.now + 1 + static_cast<i64>(g.sched.below(static_cast<u64>(std::max<i64>(1, g.cfg.start_delay_max_ns))));
            g_rec.fault("slow_thread_start");
        }
        Thr* r = t.get();
        g.threads.push_back(std::move(t));
        return r;
    }
    Thr* t_self_ptr() { return t_self; }

    Thr* find_by_handle(pthread_t h)
    {
        // newest first: the C library reuses pthread_t values of joined threads
        for (size_t i = g.threads.size(); i-- > 0;)
            if (g.threads[i]->has_handle && pthread_equal(g.threads[i]->handle, h)) return g.threads[i].get();
        return nullptr;
    }

    void sim_mutex_lock(const void* m, const char* site)
    {
        Thr* self = t_self;
        point(site, m);
        IgnoreScope ig;
        MutexState& ms = g.mutexes[m];
        if (ms.owner != -1) {
            const std::function<bool()> pred = [m] {
                auto it = g.mutexes.find(m);
                return it == g.mutexes.end() || it->second.owner == -1;
            };
            self->wait_obj = m;
            block_until(pred, -1, "mutex.lock");
            self->wait_obj = nullptr;
        }
        MutexState& acquired = g.mutexes[m];
        acquired.owner = self->id;
        acquired.serial = ++g.mutex_serial;
    }
    void sim_mutex_unlock(const void* m)
    {
        IgnoreScope ig;
        auto it = g.mutexes.find(m);
        if (it != g.mutexes.end()) g.mutexes.erase(it);
    }
}

} // namespace sim

// =====================================================================================
// Link-time wrappers (threads, mutexes, condition variables, clocks, sleeping, hooks)
// =====================================================================================
using sim::IgnoreScope;

extern "C" {

void pistache_sim_point(const char* site, const void* addr) { sim::point(site, addr); }

// ---- std::thread::_M_start_thread(unique_ptr<_State>, void(*)())
void __real__ZNSt6thread15_M_start_threadESt10unique_ptrINS_6_StateESt14default_deleteIS1_EEPFvvE(
    std::thread* self, std::unique_ptr<std::thread::_State>* state, void (*depend)());
void __wrap__ZNSt6thread15_M_start_threadESt10unique_ptrINS_6_StateESt14default_deleteIS1_EEPFvvE(
    std::thread* self, std::unique_ptr<std::thread::_State>* state, void (*depend)())
{
    if (!sim::in_sim()) {
        __real__ZNSt6thread15_M_start_threadESt10unique_ptrINS_6_StateESt14default_deleteIS1_EEPFvvE(self, state, depend);
        return;
    }
    sim::Thr* rec;
    {
        IgnoreScope ig;
        rec = sim::new_thread_record();
    }
    std::unique_ptr<std::thread::_State> wrapped(new sim::WrapState(std::move(*state), rec));
    __real__ZNSt6thread15_M_start_threadESt10unique_ptrINS_6_StateESt14default_deleteIS1_EEPFvvE(self, &wrapped, depend);
    {
        IgnoreScope ig;
        rec->handle = self->native_handle();
        rec->has_handle = true;
    }
    sim::point("thread.start", rec);
}

// ---- std::thread::join()
void __real__ZNSt6thread4joinEv(std::thread* self);
void __wrap__ZNSt6thread4joinEv(std::thread* self)
{
    if (!sim::in_sim()) {
        __real__ZNSt6thread4joinEv(self);
        return;
    }
    sim::Thr* target;
    {
        IgnoreScope ig;
        target = sim::find_by_handle(self->native_handle());
    }
    if (target && target == sim::t_self_ptr()) {
        // joining oneself: the C library refuses (EDEADLK) and std::thread::join throws, as outside the simulation
        __real__ZNSt6thread4joinEv(self);
        return;
    }
    if (target) {
        sim::point("thread.join", target);
        const std::function<bool()> pred = [target] { return target->st == sim::Finished; };
        sim::block_until(pred, -1, "thread.join");
    }
    __real__ZNSt6thread4joinEv(self);
    if (target) {
        IgnoreScope ig;
        target->has_handle = false; // the handle value may be given to a later thread
    }
}

// ---- mutexes
int __real_pthread_mutex_lock(pthread_mutex_t* m);
int __real_pthread_mutex_trylock(pthread_mutex_t* m);
int __real_pthread_mutex_unlock(pthread_mutex_t* m);

int __wrap_pthread_mutex_lock(pthread_mutex_t* m)
{
    if (!sim::in_sim()) return __real_pthread_mutex_lock(m);
    sim::sim_mutex_lock(m, "mutex.lock");
    return __real_pthread_mutex_lock(m);
}
int __wrap_pthread_mutex_trylock(pthread_mutex_t* m)
{
    if (!sim::in_sim()) return __real_pthread_mutex_trylock(m);
    sim::point("mutex.trylock", m);
    {
        IgnoreScope ig;
        auto it = sim::g.mutexes.find(m);
        if (it != sim::g.mutexes.end() && it->second.owner != -1) return EBUSY;
        sim::g.mutexes[m].owner = sim::t_self->id;
    }
    return __real_pthread_mutex_trylock(m);
}
int __wrap_pthread_mutex_unlock(pthread_mutex_t* m)
{
    if (!sim::in_sim()) return __real_pthread_mutex_unlock(m);
    int r = __real_pthread_mutex_unlock(m);
    sim::sim_mutex_unlock(m);
    sim::point("mutex.unlock", m);
    return r;
}

// ---- condition variables (the real ones are never used inside a simulation)
static void cv_wait_common(void* cv, pthread_mutex_t* m, sim::i64 deadline)
{
    int me = sim::t_self->id;
    {
        IgnoreScope ig;
        sim::g.cvs[cv].push_back({ me, false });
    }
    __real_pthread_mutex_unlock(m);
    sim::sim_mutex_unlock(m);
    const std::function<bool()> pred = [cv, me] {
        auto it = sim::g.cvs.find(cv);
        if (it == sim::g.cvs.end()) return true;
        for (auto& w : it->second)
            if (w.tid == me) return w.signaled;
        return true;
    };
    sim::block_until(pred, deadline, "cv.wait");
    {
        IgnoreScope ig;
        auto it = sim::g.cvs.find(cv);
        if (it != sim::g.cvs.end()) {
            auto& v = it->second;
            for (size_t i = 0; i < v.size(); ++i)
                if (v[i].tid == me) {
                    v.erase(v.begin() + static_cast<long>(i));
                    break;
                }
            if (v.empty()) sim::g.cvs.erase(it);
        }
    }
    sim::sim_mutex_lock(m, "cv.relock");
    __real_pthread_mutex_lock(m);
}

void __real__ZNSt18condition_variable4waitERSt11unique_lockISt5mutexE(std::condition_variable* cv, std::unique_lock<std::mutex>* lk);
void __wrap__ZNSt18condition_variable4waitERSt11unique_lockISt5mutexE(std::condition_variable* cv, std::unique_lock<std::mutex>* lk)
{
    if (!sim::in_sim()) {
        __real__ZNSt18condition_variable4waitERSt11unique_lockISt5mutexE(cv, lk);
        return;
    }
    cv_wait_common(cv, lk->mutex()->native_handle(), -1);
}
void __real__ZNSt18condition_variable10notify_oneEv(std::condition_variable* cv);
void __wrap__ZNSt18condition_variable10notify_oneEv(std::condition_variable* cv)
{
    if (!sim::in_sim()) {
        __real__ZNSt18condition_variable10notify_oneEv(cv);
        return;
    }
    {
        IgnoreScope ig;
        auto it = sim::g.cvs.find(cv);
        if (it != sim::g.cvs.end())
            for (auto& w : it->second)
                if (!w.signaled) {
                    w.signaled = true;
                    break;
                }
    }
    sim::point("cv.notify_one", cv);
}
void __real__ZNSt18condition_variable10notify_allEv(std::condition_variable* cv);
void __wrap__ZNSt18condition_variable10notify_allEv(std::condition_variable* cv)
{
    if (!sim::in_sim()) {
        __real__ZNSt18condition_variable10notify_allEv(cv);
        return;
    }
    {
        IgnoreScope ig;
        auto it = sim::g.cvs.find(cv);
        if (it != sim::g.cvs.end())
            for (auto& w : it->second) w.signaled = true;
    }
    sim::point("cv.notify_all", cv);
}

static const sim::i64 kClockBase = 1000000000000LL; // simulated clocks start at 1000 s

int __real_pthread_cond_clockwait(pthread_cond_t* c, pthread_mutex_t* m, clockid_t clk, const struct timespec* abst);
int __wrap_pthread_cond_clockwait(pthread_cond_t* c, pthread_mutex_t* m, clockid_t clk, const struct timespec* abst)
{
    if (!sim::in_sim()) return __real_pthread_cond_clockwait(c, m, clk, abst);
    sim::i64 abs_ns = static_cast<sim::i64>(abst->tv_sec) * 1000000000LL + abst->tv_nsec - kClockBase;
    if (clk == CLOCK_REALTIME) abs_ns -= sim::wall_offset_ns();
    sim::i64 before = sim::now_ns();
    cv_wait_common(c, m, abs_ns < before ? before : abs_ns);
    return sim::now_ns() >= abs_ns ? ETIMEDOUT : 0;
}
int __real_pthread_cond_timedwait(pthread_cond_t* c, pthread_mutex_t* m, const struct timespec* abst);
int __wrap_pthread_cond_timedwait(pthread_cond_t* c, pthread_mutex_t* m, const struct timespec* abst)
{
    if (!sim::in_sim()) return __real_pthread_cond_timedwait(c, m, abst);
    return __wrap_pthread_cond_clockwait(c, m, CLOCK_REALTIME, abst);
}

// ---- clocks
sim::i64 __real__ZNSt6chrono3_V212steady_clock3nowEv();
sim::i64 __wrap__ZNSt6chrono3_V212steady_clock3nowEv()
{
    if (!sim::in_sim()) return __real__ZNSt6chrono3_V212steady_clock3nowEv();
    return kClockBase + sim::now_ns();
}
sim::i64 __real__ZNSt6chrono3_V212system_clock3nowEv();
sim::i64 __wrap__ZNSt6chrono3_V212system_clock3nowEv()
{
    if (!sim::in_sim()) return __real__ZNSt6chrono3_V212system_clock3nowEv();
    return kClockBase + sim::now_ns() + sim::wall_offset_ns(); // the wall clock may be stepped (fault "clock_step"); the monotonic clock never is
}

int __real_nanosleep(const struct timespec* req, struct timespec* rem);
int __wrap_nanosleep(const struct timespec* req, struct timespec* rem)
{
    if (!sim::in_sim()) return __real_nanosleep(req, rem);
    sim::sleep_ns(static_cast<sim::i64>(req->tv_sec) * 1000000000LL + req->tv_nsec);
    if (rem) {
        rem->tv_sec = 0;
        rem->tv_nsec = 0;
    }
    return 0;
}

} // extern "C"

// =====================================================================================
// Variant "tsanat": every atomic operation of instrumented code is a decision point
// (ThreadSanitizer routes them through __tsan_atomic*, which are wrapped at link time).
// =====================================================================================
#ifdef SIM_TSAN_ATOMICS
namespace {
inline void atomic_point(const volatile void* a)
{
    if (sim::ignore_depth() == 0 && sim::in_sim()) sim::point("atomic", const_cast<const void*>(a));
}
}
#define SIM_ATOMIC_WRAPS(N, T)                                                                                          \
    extern "C" T __real___tsan_atomic##N##_load(const volatile T* a, int mo);                                              \
    extern "C" T __wrap___tsan_atomic##N##_load(const volatile T* a, int mo)                                               \
    {                                                                                                                      \
        atomic_point(a);                                                                                                   \
        return __real___tsan_atomic##N##_load(a, mo);                                                                      \
    }                                                                                                                      \
    extern "C" void __real___tsan_atomic##N##_store(volatile T* a, T v, int mo);                                           \
    extern "C" void __wrap___tsan_atomic##N##_store(volatile T* a, T v, int mo)                                            \
    {                                                                                                                      \
        atomic_point(a);                                                                                                   \
        __real___tsan_atomic##N##_store(a, v, mo);                                                                         \
    }                                                                                                                      \
    extern "C" T __real___tsan_atomic##N##_exchange(volatile T* a, T v, int mo);                                           \
    extern "C" T __wrap___tsan_atomic##N##_exchange(volatile T* a, T v, int mo)                                            \
    {                                                                                                                      \
        atomic_point(a);                                                                                                   \
        return __real___tsan_atomic##N##_exchange(a, v, mo);                                                               \
    }                                                                                                                      \
    extern "C" T __real___tsan_atomic##N##_fetch_add(volatile T* a, T v, int mo);                                          \
    extern "C" T __wrap___tsan_atomic##N##_fetch_add(volatile T* a, T v, int mo)                                           \
    {                                                                                                                      \
        atomic_point(a);                                                                                                   \
        return __real___tsan_atomic##N##_fetch_add(a, v, mo);                                                              \
    }                                                                                                                      \
    extern "C" T __real___tsan_atomic##N##_fetch_sub(volatile T* a, T v, int mo);                                          \
    extern "C" T __wrap___tsan_atomic##N##_fetch_sub(volatile T* a, T v, int mo)                                           \
    {                                                                                                                      \
        atomic_point(a);                                                                                                   \
        return __real___tsan_atomic##N##_fetch_sub(a, v, mo);                                                              \
    }                                                                                                                      \
    extern "C" int __real___tsan_atomic##N##_compare_exchange_strong(volatile T* a, T* c, T v, int mo, int fmo);           \
    extern "C" int __wrap___tsan_atomic##N##_compare_exchange_strong(volatile T* a, T* c, T v, int mo, int fmo)            \
    {                                                                                                                      \
        atomic_point(a);                                                                                                   \
        return __real___tsan_atomic##N##_compare_exchange_strong(a, c, v, mo, fmo);                                        \
    }                                                                                                                      \
    extern "C" int __real___tsan_atomic##N##_compare_exchange_weak(volatile T* a, T* c, T v, int mo, int fmo);             \
    extern "C" int __wrap___tsan_atomic##N##_compare_exchange_weak(volatile T* a, T* c, T v, int mo, int fmo)              \
    {                                                                                                                      \
        atomic_point(a);                                                                                                   \
        return __real___tsan_atomic##N##_compare_exchange_weak(a, c, v, mo, fmo);                                          \
    }
SIM_ATOMIC_WRAPS(8, unsigned char)
SIM_ATOMIC_WRAPS(32, unsigned int)
SIM_ATOMIC_WRAPS(64, unsigned long long)
#endif
