// C12 — cross-thread settle and attach never lose or repeat a continuation.
//
// Thread A fulfils or rejects a promise P while thread B (and sometimes C) attaches a
// continuation to P, or to a promise derived from P by then(), or builds the chain itself.
// The scheduler interleaves at the promise core's lock operations and at the yield points in
// async.h (state check, list append, state store, list walk).
#include <pistache/async.h>

#include <memory>
#include <mutex>
#include <thread>
#include <tuple>

#include "scenario.h"

using namespace scen;
using namespace Pistache;
using sim::i64;

namespace {

struct TestExc : std::runtime_error {
    int tag;
    explicit TestExc(int t) : std::runtime_error("test"), tag(t) { }
};

int exc_tag(std::exception_ptr e)
{
    if (!e) return -2;
    try {
        std::rethrow_exception(e);
    } catch (const TestExc& t) {
        return t.tag;
    } catch (...) {
        return -1;
    }
}

// what one attached continuation observed
struct Obs {
    int fulfilled = 0, rejected = 0;
    int value = 0;     // last value seen by the fulfilment continuation
    int exc = 0;       // tag of the exception seen by the rejection continuation
};

const char* kShapes[] = { "root", "derived-value", "derived-void", "derived-resolved-promise", "derived-pending-promise", "derived-chain2", "void-root", "void-derived", "void-derived-pending-promise" };
constexpr int kNumShapes = 9;

Json gen(sim::Rng& rng, int tier)
{
    (void)tier;
    Json p = Json::object();
    p["shape"] = static_cast<int>(rng.below(kNumShapes));
    p["reject"] = rng.chance(0.35);
    p["inner_reject"] = rng.chance(0.4);   // shapes with a pending inner promise: the settler rejects it instead of fulfilling it
    p["attachers"] = static_cast<int>(rng.range(1, 2));
    p["b_builds_chain"] = rng.chance(0.3);   // the attaching thread creates the derived promise itself
    p["settle_delay_us"] = rng.chance(0.6) ? 0 : static_cast<int>(rng.below(20));
    p["attach_delay_us"] = rng.chance(0.6) ? 0 : static_cast<int>(rng.below(20));
    gen_sched(rng, p, 120);
    return p;
}

void run(const Json& plan)
{
    int shape = static_cast<int>(plan.num("shape", 0));
    if (shape < 0 || shape >= kNumShapes) shape = 0;
    const bool reject = plan.flag("reject");
    const bool has_inner = shape == 4 || shape == 8;
    const bool inner_reject = has_inner && !reject && plan.flag("inner_reject");
    const int attachers = std::max(1, std::min(3, static_cast<int>(plan.num("attachers", 1))));
    const bool b_builds = plan.flag("b_builds_chain");
    const i64 sdelay = plan.num("settle_delay_us", 0) * 1000, adelay = plan.num("attach_delay_us", 0) * 1000;
    int V = 1000, E = 77; // not const: Deferred::resolve deduces the stored type from the argument

    sim::Recorder& r = sim::rec();
    r.probe(std::string("shape-") + kShapes[shape]);
    if (reject) r.probe("settle-reject");
    if (inner_reject) r.probe("inner-promise-rejected");
    if (b_builds) r.probe("attacher-builds-chain");

    std::vector<Obs> obs(static_cast<size_t>(attachers));
    int stage_calls = 0;      // how often the first-stage continuation f ran (must be <= 1 per derived promise)

    const bool void_root = shape >= 6;
    Async::Deferred<int> defI;
    Async::Deferred<void> defV;
    Async::Promise<int> PI([&](Async::Deferred<int> d) { defI = std::move(d); });
    Async::Promise<void> PV([&](Async::Deferred<void> d) { defV = std::move(d); });
    // pending inner promises of shape 4: one per derived promise (each run of the first-stage continuation creates one)
    // (handed from the creating thread to the settler under an application-level mutex, as a real program would)
    std::vector<std::unique_ptr<Async::Deferred<int>>> innerDefs;
    std::mutex innerMtx;
    auto make_inner = [&]() {
        return Async::Promise<int>([&](Async::Deferred<int> d) {
            auto p = std::make_unique<Async::Deferred<int>>(std::move(d));
            std::lock_guard<std::mutex> g(innerMtx);
            innerDefs.push_back(std::move(p));
        });
    };

    // expected value delivered to the final continuation
    int expect_val = V;
    switch (shape) {
    case 1: case 3: case 4: case 8: expect_val = V + 1; break;
    case 5: expect_val = V + 2; break;
    default: break;
    }
    const bool final_void = shape == 2 || shape == 6 || shape == 7;

    auto attach_int = [&](Async::Promise<int>& target, Obs& o) {
        target.then([&o](int v) { sim::IgnoreScope ig; o.fulfilled++; o.value = v; },
                    [&o](std::exception_ptr e) { int t = exc_tag(e); sim::IgnoreScope ig; o.rejected++; o.exc = t; });
    };
    auto attach_void = [&](Async::Promise<void>& target, Obs& o) {
        target.then([&o]() { sim::IgnoreScope ig; o.fulfilled++; },
                    [&o](std::exception_ptr e) { int t = exc_tag(e); sim::IgnoreScope ig; o.rejected++; o.exc = t; });
    };

    // derive: builds the derived promise of the shape from the root and attaches obs to it
    auto derive_and_attach = [&](Obs& o) {
        switch (shape) {
        case 0: attach_int(PI, o); break;
        case 1: {
            auto D = PI.then([&](int v) { { sim::IgnoreScope ig; stage_calls++; } return v + 1; }, Async::Throw);
            attach_int(D, o);
            break;
        }
        case 2: {
            auto D = PI.then([&](int) { sim::IgnoreScope ig; stage_calls++; }, Async::Throw);
            attach_void(D, o);
            break;
        }
        case 3: {
            auto D = PI.then([&](int v) { { sim::IgnoreScope ig; stage_calls++; } return Async::Promise<int>::resolved(v + 1); }, Async::Throw);
            attach_int(D, o);
            break;
        }
        case 4: {
            auto D = PI.then([&](int v) {
                { sim::IgnoreScope ig; stage_calls++; }
                (void)v;
                return make_inner();
            }, Async::Throw);
            attach_int(D, o);
            break;
        }
        case 5: {
            auto D = PI.then([&](int v) { { sim::IgnoreScope ig; stage_calls++; } return v + 1; }, Async::Throw)
                       .then([&](int v) { return v + 1; }, Async::Throw);
            attach_int(D, o);
            break;
        }
        case 6: attach_void(PV, o); break;
        case 7: {
            auto D = PV.then([&]() { sim::IgnoreScope ig; stage_calls++; }, Async::Throw);
            attach_void(D, o);
            break;
        }
        case 8: {
            auto D = PV.then([&]() {
                { sim::IgnoreScope ig; stage_calls++; }
                return make_inner();
            }, Async::Throw);
            attach_int(D, o);
            break;
        }
        }
    };

    // pre-built derived promise shared by the attachers (when the attacher does not build the chain)
    std::unique_ptr<Async::Promise<int>> DI;
    std::unique_ptr<Async::Promise<void>> DV;
    if (!b_builds) {
        switch (shape) {
        case 1: DI.reset(new Async::Promise<int>(PI.then([&](int v) { { sim::IgnoreScope ig; stage_calls++; } return v + 1; }, Async::Throw))); break;
        case 2: DV.reset(new Async::Promise<void>(PI.then([&](int) { sim::IgnoreScope ig; stage_calls++; }, Async::Throw))); break;
        case 3: DI.reset(new Async::Promise<int>(PI.then([&](int v) { { sim::IgnoreScope ig; stage_calls++; } return Async::Promise<int>::resolved(v + 1); }, Async::Throw))); break;
        case 4: DI.reset(new Async::Promise<int>(PI.then([&](int) {
                    { sim::IgnoreScope ig; stage_calls++; }
                    return make_inner();
                }, Async::Throw)));
            break;
        case 5: DI.reset(new Async::Promise<int>(PI.then([&](int v) { { sim::IgnoreScope ig; stage_calls++; } return v + 1; }, Async::Throw).then([&](int v) { return v + 1; }, Async::Throw))); break;
        case 7: DV.reset(new Async::Promise<void>(PV.then([&]() { sim::IgnoreScope ig; stage_calls++; }, Async::Throw))); break;
        case 8: DI.reset(new Async::Promise<int>(PV.then([&]() {
                    { sim::IgnoreScope ig; stage_calls++; }
                    return make_inner();
                }, Async::Throw)));
            break;
        default: break;
        }
    }

    std::thread A([&] {
        sim::set_self_name("settler");
        if (sdelay > 0) sim::sleep_ns(sdelay);
        if (void_root) {
            if (reject) defV.reject(TestExc(E));
            else defV.resolve();
        } else {
            if (reject) defI.reject(TestExc(E));
            else defI.resolve(V);
        }
        if (has_inner && !reject) {
            // an inner promise exists once a first-stage continuation has run (inside resolve or inside then);
            // settle each of them as it appears
            size_t want = static_cast<size_t>(b_builds ? attachers : 1), done = 0;
            while (done < want) {
                const std::function<bool()> pred = [&] { return innerDefs.size() > done; };
                if (!scen::wait_for(pred, 50 * 1000 * 1000, "wait-inner")) break;
                Async::Deferred<int>* d;
                {
                    std::lock_guard<std::mutex> g(innerMtx);
                    d = innerDefs[done].get();
                }
                if (inner_reject) d->reject(TestExc(E + 1));
                else d->resolve(V + 1);
                done++;
            }
        }
    });
    std::vector<std::thread> Bs;
    for (int i = 0; i < attachers; ++i) {
        Bs.emplace_back([&, i] {
            sim::set_self_name(("attacher" + std::to_string(i)).c_str());
            if (adelay > 0) sim::sleep_ns(adelay * (i + 1));
            Obs& o = obs[static_cast<size_t>(i)];
            if (b_builds || shape == 0 || shape == 6) {
                derive_and_attach(o);
            } else if (DI) {
                attach_int(*DI, o);
            } else if (DV) {
                attach_void(*DV, o);
            }
        });
    }
    A.join();
    for (auto& t : Bs) t.join();

    // ---- oracle: every attached continuation ran exactly once with the settled outcome
    for (int i = 0; i < attachers; ++i) {
        const Obs& o = obs[static_cast<size_t>(i)];
        std::string who = "continuation attached by thread " + std::to_string(i) + " (shape " + kShapes[shape] + (reject ? ", rejected" : ", fulfilled") + (b_builds ? ", attacher builds chain" : "") + ")";
        const char* tgt = (shape == 0 || shape == 6) ? "root" : "derived";
        // A continuation that returns nothing ends its chain: Pistache never settles the promise derived from
        // it on fulfilment (by design; rejections are still forwarded by the rethrow handler), so a continuation
        // attached to it has no settled outcome to see. Only at-most-once is demanded there.
        const bool unsettled_by_design = (shape == 2 || shape == 7) && !reject;
        if (o.fulfilled + o.rejected == 0) {
            if (!unsettled_by_design) r.violation(std::string("C12.once:continuation-never-ran:") + tgt, who + " never ran although the promise was settled");
        } else if (o.fulfilled + o.rejected > 1) {
            r.violation(std::string("C12.once:continuation-ran-twice:") + tgt, who + " ran " + std::to_string(o.fulfilled) + " fulfilment and " + std::to_string(o.rejected) + " rejection times");
        } else if (reject || inner_reject) {
            const int want_tag = reject ? E : E + 1;
            if (o.fulfilled) r.violation(std::string("C12.outcome:fulfilled-on-rejection:") + tgt, who + " saw fulfilment of a rejected promise");
            else if (o.exc != want_tag) r.violation(std::string("C12.outcome:wrong-exception:") + tgt, who + " saw exception tag " + std::to_string(o.exc) + " instead of " + std::to_string(want_tag));
        } else {
            if (o.rejected) r.violation(std::string("C12.outcome:rejected-on-fulfilment:") + tgt, who + " saw a rejection (tag " + std::to_string(o.exc) + ") of a fulfilled promise");
            else if (!final_void && o.value != expect_val) r.violation(std::string("C12.outcome:wrong-value:") + tgt, who + " saw value " + std::to_string(o.value) + " instead of " + std::to_string(expect_val));
        }
    }
    int derived_count = (shape == 0 || shape == 6) ? 0 : (b_builds ? attachers : 1);
    if (!reject && stage_calls != derived_count)
        r.violation("C12.once:stage-continuation-count", "first-stage continuation ran " + std::to_string(stage_calls) + " times for " + std::to_string(derived_count) + " derived promises");
    if (reject && stage_calls != 0) r.violation("C12.outcome:stage-ran-on-rejection", "first-stage fulfilment continuation ran on a rejected promise");
}

// ---- two settling threads feeding one combinator, a third thread attaching ------------------------------------
Json gen_comb(sim::Rng& rng, int)
{
    Json p = Json::object();
    p["kind"] = rng.chance(0.5) ? "all" : "any";
    // the range forms of whenAll: over a vector of Promise<void> (result Promise<void>) and of Promise<int> (values by position)
    if (rng.chance(0.3)) p["kind"] = rng.chance(0.5) ? "all-range-void" : "all-range-int";
    p["reject1"] = rng.chance(0.3);
    p["reject2"] = rng.chance(0.3);
    p["prebuilt"] = rng.chance(0.5);
    p["d1_us"] = rng.chance(0.6) ? 0 : static_cast<int>(rng.below(20));
    p["d2_us"] = rng.chance(0.6) ? 0 : static_cast<int>(rng.below(20));
    p["db_us"] = rng.chance(0.6) ? 0 : static_cast<int>(rng.below(20));
    gen_sched(rng, p, 150);
    return p;
}

void run_comb_range(const Json& plan);

void run_comb(const Json& plan)
{
    if (plan.str("kind", "all").compare(0, 9, "all-range") == 0) {
        run_comb_range(plan);
        return;
    }
    sim::Recorder& r = sim::rec();
    const bool all = plan.str("kind", "all") != "any";
    const bool rej1 = plan.flag("reject1"), rej2 = plan.flag("reject2"), prebuilt = plan.flag("prebuilt");
    int V1 = 11, V2 = 22, E1 = 71, E2 = 72;
    Async::Deferred<int> d1, d2;
    Async::Promise<int> P1([&](Async::Deferred<int> d) { d1 = std::move(d); });
    Async::Promise<int> P2([&](Async::Deferred<int> d) { d2 = std::move(d); });
    struct {
        int f = 0, rj = 0, a = 0, b = 0, exc = 0;
    } o;
    int raised = 0;
    std::string raised_what;
    r.probe(all ? "combinator-all" : "combinator-any");
    if (rej1 || rej2) r.probe("combinator-with-rejection");
    auto attach_all = [&](Async::Promise<std::tuple<int, int>>& R) {
        R.then([&o](const std::tuple<int, int>& t) { sim::IgnoreScope ig; o.f++; o.a = std::get<0>(t); o.b = std::get<1>(t); },
               [&o](std::exception_ptr e) { int t = exc_tag(e); sim::IgnoreScope ig; o.rj++; o.exc = t; });
    };
    auto attach_any = [&](Async::Promise<Async::Any>& R) {
        R.then([&o](const Async::Any& any) { int v = any.cast<int>(); sim::IgnoreScope ig; o.f++; o.a = v; },
               [&o](std::exception_ptr e) { int t = exc_tag(e); sim::IgnoreScope ig; o.rj++; o.exc = t; });
    };
    std::unique_ptr<Async::Promise<std::tuple<int, int>>> RA;
    std::unique_ptr<Async::Promise<Async::Any>> RY;
    if (prebuilt) {
        if (all) RA.reset(new Async::Promise<std::tuple<int, int>>(Async::whenAll(P1, P2)));
        else RY.reset(new Async::Promise<Async::Any>(Async::whenAny(P1, P2)));
    }
    auto settle = [&](Async::Deferred<int>& d, bool rej, int v, int e, i64 delay, const char* name) {
        return [&, rej, v, e, delay, name]() mutable {
            sim::set_self_name(name);
            if (delay > 0) sim::sleep_ns(delay);
            try {
                if (rej) d.reject(TestExc(e));
                else d.resolve(v);
            } catch (const std::exception& ex) {
                sim::IgnoreScope ig;
                raised++;
                raised_what = ex.what();
            }
        };
    };
    std::thread S1(settle(d1, rej1, V1, E1, plan.num("d1_us", 0) * 1000, "settler1"));
    std::thread S2(settle(d2, rej2, V2, E2, plan.num("d2_us", 0) * 1000, "settler2"));
    std::thread B([&] {
        sim::set_self_name("attacher");
        i64 db = plan.num("db_us", 0) * 1000;
        if (db > 0) sim::sleep_ns(db);
        try {
            if (all) {
                if (prebuilt) attach_all(*RA);
                else {
                    auto R = Async::whenAll(P1, P2);
                    attach_all(R);
                }
            } else {
                if (prebuilt) attach_any(*RY);
                else {
                    auto R = Async::whenAny(P1, P2);
                    attach_any(R);
                }
            }
        } catch (const std::exception& ex) {
            sim::IgnoreScope ig;
            raised++;
            raised_what = std::string("attach: ") + ex.what();
        }
    });
    S1.join();
    S2.join();
    B.join();
    std::string who = std::string(all ? "whenAll" : "whenAny") + " over two promises settled by two threads (" + (rej1 ? "reject" : "fulfil") + ", " + (rej2 ? "reject" : "fulfil") + (prebuilt ? ", combinator pre-built" : ", combinator built by the attacher") + ")";
    if (raised) r.violation("C12.combinator:outcome-raises", who + ": a settling or attaching party got an exception: " + raised_what);
    if (o.f + o.rj == 0) r.violation("C12.once:continuation-never-ran:combinator", who + ": neither continuation ran although both inputs were settled");
    else if (o.f + o.rj > 1) r.violation("C12.once:continuation-ran-twice:combinator", who + ": continuations ran " + std::to_string(o.f) + " + " + std::to_string(o.rj) + " times");
    else if (all) {
        if (!rej1 && !rej2) {
            if (!o.f) r.violation("C12.outcome:rejected-on-fulfilment:combinator", who + ": rejected (tag " + std::to_string(o.exc) + ") although both inputs were fulfilled");
            else if (o.a != V1 || o.b != V2) r.violation("C12.outcome:wrong-value:combinator", who + ": delivered (" + std::to_string(o.a) + ", " + std::to_string(o.b) + ")");
        } else {
            if (o.f) r.violation("C12.outcome:fulfilled-on-rejection:combinator", who + ": fulfilled although an input was rejected");
            else if (!((rej1 && o.exc == E1) || (rej2 && o.exc == E2))) r.violation("C12.outcome:wrong-exception:combinator", who + ": rejected with tag " + std::to_string(o.exc));
        }
    } else {
        // the first outcome, whichever input it came from
        bool ok = (o.f && ((!rej1 && o.a == V1) || (!rej2 && o.a == V2))) || (o.rj && ((rej1 && o.exc == E1) || (rej2 && o.exc == E2)));
        if (!ok) r.violation("C12.outcome:not-an-input-outcome:combinator", who + ": took an outcome that none of its inputs had (value " + std::to_string(o.a) + ", exception tag " + std::to_string(o.exc) + ")");
    }
}

// whenAll(begin, end) over a vector of promises: two threads settle the two inputs while a third builds (or attaches to) it
template <typename T>
void run_range(const Json& plan)
{
    sim::Recorder& r = sim::rec();
    constexpr bool is_void = std::is_void<T>::value;
    const bool rej1 = plan.flag("reject1"), rej2 = plan.flag("reject2"), prebuilt = plan.flag("prebuilt");
    const int V1 = 11, V2 = 22, E1 = 71, E2 = 72;
    Async::Deferred<T> d1, d2;
    std::vector<Async::Promise<T>> in;
    in.emplace_back([&](Async::Deferred<T> d) { d1 = std::move(d); });
    in.emplace_back([&](Async::Deferred<T> d) { d2 = std::move(d); });
    struct {
        int f = 0, rj = 0, a = 0, b = 0, n = 0, exc = 0;
    } o;
    int raised = 0;
    std::string raised_what;
    r.probe(is_void ? "combinator-all-range-void" : "combinator-all-range-int");
    if (rej1 || rej2) r.probe("combinator-with-rejection");
    auto on_reject = [&o](std::exception_ptr e) { int t = exc_tag(e); sim::IgnoreScope ig; o.rj++; o.exc = t; };
    auto build_and_attach = [&](bool attach_only, void* pre) {
        if constexpr (is_void) {
            auto attach = [&](Async::Promise<void>& R) { R.then([&o]() { sim::IgnoreScope ig; o.f++; }, on_reject); };
            if (attach_only) attach(*static_cast<Async::Promise<void>*>(pre));
            else {
                auto R = Async::whenAll(in.begin(), in.end());
                attach(R);
            }
        } else {
            auto attach = [&](Async::Promise<std::vector<int>>& R) {
                R.then([&o](const std::vector<int>& v) { sim::IgnoreScope ig; o.f++; o.n = static_cast<int>(v.size()); o.a = v.size() > 0 ? v[0] : -1; o.b = v.size() > 1 ? v[1] : -1; }, on_reject);
            };
            if (attach_only) attach(*static_cast<Async::Promise<std::vector<int>>*>(pre));
            else {
                auto R = Async::whenAll(in.begin(), in.end());
                attach(R);
            }
        }
    };
    using Combined = typename std::conditional<is_void, Async::Promise<void>, Async::Promise<std::vector<int>>>::type;
    std::unique_ptr<Combined> pre;
    if (prebuilt) pre.reset(new Combined(Async::whenAll(in.begin(), in.end())));
    auto settle = [&](Async::Deferred<T>& d, bool rej, int v, int e, i64 delay, const char* name) {
        return [&, rej, v, e, delay, name]() mutable {
            sim::set_self_name(name);
            if (delay > 0) sim::sleep_ns(delay);
            try {
                if (rej) d.reject(TestExc(e));
                else {
                    if constexpr (is_void) {
                        (void)v;
                        d.resolve();
                    } else
                        d.resolve(v);
                }
            } catch (const std::exception& ex) {
                sim::IgnoreScope ig;
                raised++;
                raised_what = ex.what();
            }
        };
    };
    std::thread S1(settle(d1, rej1, V1, E1, plan.num("d1_us", 0) * 1000, "settler1"));
    std::thread S2(settle(d2, rej2, V2, E2, plan.num("d2_us", 0) * 1000, "settler2"));
    std::thread B([&] {
        sim::set_self_name("attacher");
        i64 db = plan.num("db_us", 0) * 1000;
        if (db > 0) sim::sleep_ns(db);
        try {
            build_and_attach(prebuilt, pre.get());
        } catch (const std::exception& ex) {
            sim::IgnoreScope ig;
            raised++;
            raised_what = std::string("attach: ") + ex.what();
        }
    });
    S1.join();
    S2.join();
    B.join();
    std::string who = std::string("whenAll over a range of two Promise<") + (is_void ? "void" : "int") + "> settled by two threads (" + (rej1 ? "reject" : "fulfil") + ", " + (rej2 ? "reject" : "fulfil") + (prebuilt ? ", combinator pre-built" : ", combinator built by the attacher") + ")";
    if (raised) r.violation("C12.combinator:outcome-raises", who + ": a settling or attaching party got an exception: " + raised_what);
    if (o.f + o.rj == 0) r.violation("C12.once:continuation-never-ran:combinator", who + ": neither continuation ran although both inputs were settled");
    else if (o.f + o.rj > 1) r.violation("C12.once:continuation-ran-twice:combinator", who + ": continuations ran " + std::to_string(o.f) + " + " + std::to_string(o.rj) + " times");
    else if (!rej1 && !rej2) {
        if (!o.f) r.violation("C12.outcome:rejected-on-fulfilment:combinator", who + ": rejected (tag " + std::to_string(o.exc) + ") although both inputs were fulfilled");
        else if (!is_void && (o.n != 2 || o.a != V1 || o.b != V2)) r.violation("C12.outcome:wrong-value:combinator", who + ": delivered " + std::to_string(o.n) + " values (" + std::to_string(o.a) + ", " + std::to_string(o.b) + ")");
    } else {
        if (o.f) r.violation("C12.outcome:fulfilled-on-rejection:combinator", who + ": fulfilled although an input was rejected");
        else if (!((rej1 && o.exc == E1) || (rej2 && o.exc == E2))) r.violation("C12.outcome:wrong-exception:combinator", who + ": rejected with tag " + std::to_string(o.exc));
    }
}

void run_comb_range(const Json& plan)
{
    if (plan.str("kind") == "all-range-void") run_range<void>(plan);
    else run_range<int>(plan);
}

Scenario scc { "c12_combinators", "C12", "two threads settle the inputs of whenAll/whenAny while a third attaches to (or builds) the combinator", gen_comb, run_comb };
Registrar regc(&scc);

Scenario sc { "c12_settle_attach", "C12", "thread A settles a promise while threads B/C attach to it or to a derived promise", gen, run };
Registrar reg(&sc);

} // namespace
