// Things shared by the scenarios that need Pistache headers.
#include <pistache/http.h>

#include "scenario.h"

namespace scen {

// Touch lazily initialised process-wide state of Pistache and libstdc++ once, outside any
// simulation, so that no simulated thread is ever parked inside a static-initialisation guard.
void pretouch()
{
    Pistache::Http::RequestParser parser(4096);
    const char* req = "GET /x?a=b HTTP/1.1\r\nHost: a\r\nContent-Length: 1\r\nCookie: k=v\r\nAccept: text/plain\r\n\r\nz";
    parser.feed(req, strlen(req));
    try {
        parser.parse();
    } catch (...) {
    }
    std::ostringstream os;
    os << 1.5 << std::hex << 255 << Pistache::Http::Method::Get << Pistache::Http::Code::Ok;
}

} // namespace scen
