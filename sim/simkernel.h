// simkernel: simulated descriptors (epoll, eventfd, timerfd, TCP stream and listening
// sockets) behind the __wrap_* entry points, plus the API used by scripted actors
// (simulated remote peers), fault configuration and the descriptor census.
#pragma once
#include <cstdint>
#include <deque>
#include <functional>
#include <map>
#include <memory>
#include <string>
#include <vector>

#include "simrt.h"

namespace simk {

using sim::i64;
using sim::u64;

constexpr int FD_BASE = 1000;

// ---- per-connection network parameters ------------------------------------------
struct NetParams {
    size_t sndbuf = 65536;   // bytes the sender side buffers (in flight / unacknowledged)
    size_t rcvbuf = 65536;   // bytes the receiver side queues before the window closes
    size_t mss = 1460;       // maximum segment size
    i64 latency_ns = 50 * 1000;
    i64 jitter_ns = 20 * 1000;
};

// ---- fault configuration (per run) --------------------------------------------------
struct SendCap {             // "the j-th send on accepted connection k accepts at most cap bytes"
    int conn;                // ordinal of the server-side (fd-owning) socket in creation order, -1 = any
    int call;                // ordinal of the send/sendfile call on that socket (0-based)
    long cap;                // bytes accepted at most; 0 => EAGAIN
};
struct Faults {
    double epoll_eintr_p = 0;      // epoll_wait returns EINTR
    double accept_fail_p = 0;      // accept4 fails once with ECONNABORTED
    double short_write_p = 0;      // a send/sendfile accepts fewer bytes than it could
    double short_read_p = 0;       // a recv returns fewer bytes than queued
    double eagain_p = 0;           // a send returns EAGAIN although there is room (spurious, legal: memory pressure)
    std::vector<SendCap> send_caps;
    NetParams server_side;         // parameters of the direction server -> client for new connections
    NetParams client_side;         // parameters of the direction client -> server
    bool randomize_net = false;    // draw per connection parameters from the net stream
    bool randomize_c2s = true;     // with randomize_net: also for the direction client -> server (off: only server -> client)
};
Faults& faults();

// ---- anomalies observed by the kernel stub (double close, EBADF use, ...) ----------------
struct Anomaly {
    std::string kind;   // e.g. "close.ebadf", "epoll_ctl.del.enoent", "use-after-close"
    std::string detail;
};
const std::vector<Anomaly>& anomalies();

// called (inside the closing thread's close()) after a descriptor of a connected stream socket was released;
// lets a scenario model other parts of the application that open descriptors just then (number reuse)
void set_stream_close_observer(std::function<void(int fd)> fn);

// ---- run control --------------------------------------------------------------------------
void reset();                               // forget everything (start of a run)
std::map<std::string, int> census();        // open simulated descriptors by kind + "realfile"
std::string census_str();
int open_fd_count();
u64 total_fds_created();

// counters per fd-owning stream socket (for oracles)
struct SockStats {
    int fd = -1;
    int ordinal = -1;       // creation order among fd-owning stream sockets
    int conn_id = -1;       // id of the simulated connection (ActorSock::id() of the other end)
    int port = 0;           // destination port of a socket created by connect()
    u64 send_calls = 0, send_eagain = 0, send_short = 0;
    u64 bytes_accepted = 0; // bytes accepted from the application by send/sendfile
    u64 recv_calls = 0, bytes_received = 0;
    bool closed = false;
    bool accepted = false;  // created by accept (server side) rather than by connect
    i64 opened_at = 0, closed_at = -1; // simulated time of socket() / accept and of close()
};
const std::vector<SockStats>& sock_stats();
// counters per epoll instance, indexed by creation order
struct EpollStats {
    int fd = -1;
    u64 waits = 0;          // epoll_wait calls
    u64 returns = 0;        // epoll_wait returns with >0 events
    u64 events_reported = 0;
};
const std::vector<EpollStats>& epoll_stats();
u64 io_progress_counter();  // increases whenever a byte moves on any socket or a timer/eventfd fires

// ---- actor side of the network ------------------------------------------------------------
// An ActorSock is the remote end of a simulated TCP connection. It has no descriptor.
// All methods must be called from simulator context (events / actor callbacks / the driver
// thread while it holds the baton); they never yield.
struct Conn;
class ActorSock {
public:
    enum Ev : uint32_t { Connected = 1, Readable = 2, Writable = 4, PeerFin = 8, Reset = 16, Refused = 32 };
    using Callback = std::function<void(uint32_t)>;

    // client role: connect to a listening simulated socket on `port`
    static std::shared_ptr<ActorSock> connect(int port, Callback cb, const NetParams* to_server = nullptr,
                                              const NetParams* from_server = nullptr);
    // server role: listen on `port`; on_accept is called with the new connection's actor end
    static void listen(int port, std::function<void(std::shared_ptr<ActorSock>)> on_accept);
    static void unlisten(int port);

    size_t send(const char* data, size_t len);   // bytes accepted (0 if window/buffer full)
    size_t recv(char* buf, size_t len);          // bytes read (0 if nothing queued)
    size_t readable() const;
    bool peer_fin() const;                       // FIN received and queue drained
    bool is_reset() const;
    bool established() const;
    void shutdown_wr();
    void close();                                // orderly close (RST if unread data, like Linux)
    void abort();                                // RST
    void set_callback(Callback cb);
    void set_reading(bool on);                   // off: incoming data is not drained (window fills)
    u64 bytes_sent() const;
    u64 bytes_recv() const;
    int id() const;                              // connection ordinal
    int peer_fd() const;                         // descriptor of the other end (if it has one), -1 otherwise
    std::shared_ptr<Conn> conn;
    int side = 0;
private:
    friend struct Conn;
};

// describe fd for diagnostics
std::string describe_fd(int fd);
bool is_open(int fd);

} // namespace simk
