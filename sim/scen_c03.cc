// C03 — no network input can corrupt memory, hang the parser or take the server down.
//
// Hostile client actors send mutated valid messages and grammar-directed garbage (overlong
// numbers, missing or doubled separators, lone CR, NUL and high bytes, hostile header / cookie /
// media-type values, lines truncated at a segment end) in drawn segmentations to a real
// Http::Endpoint, while a well-behaved client keeps a keep-alive conversation going on the same
// worker. Built with AddressSanitizer + UndefinedBehaviorSanitizer (annotated containers) and
// plain (allocation watch). Oracles: no sanitizer report, no uncaught exception, no hang (wall
// clock watchdog), no busy loop; the hostile connection sees nothing or well-formed responses;
// every request of the neighbour is answered correctly; no single allocation beyond a small
// multiple of the configured maximum request size; the server still serves a fresh connection.
#include "actors.h"
#include "httpworld.h"
#include "msggen.h"
#include "scenario.h"

namespace simalloc {
void start();
size_t stop();
bool available();
}

using namespace scen;
using namespace Pistache;
using sim::i64;
using sim::u64;

namespace {

const char* kHostileHeaders[] = {
    "Content-Length: 99999999999999999999", "Content-Length: 4294967296", "Content-Length: 2000000000", "Content-Length: -1", "Content-Length: ",
    "Content-Length: 12abc", "Content-Length: 0x10", "Transfer-Encoding: chunked", "Transfer-Encoding: gzip", "Transfer-Encoding: ",
    "Cookie: ====;;;;", "Cookie: a", "Cookie: =", "Cookie: a=b; ; c", "Cookie: \x01\x02=\xff", "Cookie: a=b;", "Cookie: a=b; c",
    "Accept: text/;q=", "Accept: */*;q=1.5e9999", "Accept: a/b; c", "Accept: /", "Accept: text/plain;q=0.5;q=0.9;;;", "Accept: text/plain+", "Accept: x-a/b+c; q=abc",
    "Content-Type: ", "Content-Type: a", "Content-Type: text/plain; charset", "Content-Type: application/vnd.a.b+json;=;=",
    "Cache-Control: max-age=999999999999999999999", "Cache-Control: ,,,,", "Cache-Control: max-age=", "Cache-Control: max-age=-5, private=\"",
    "Authorization: Basic %%%", "Authorization: ", "Authorization: Basic", "Host: [::1", "Host: a:99999", "Host: :", "Host: [", "Host: ]:8",
    "Date: garbage", "Date: Sun, 99 Xxx 99999 99:99:99 GMT", "Expect: ", "Expect: 100-continue", "Connection: ", "Connection: upgrade, , ",
    "Content-Encoding: ", "Content-Encoding: zzz", "Accept-Encoding: gzip;q=", "Access-Control-Allow-Origin: ", "User-Agent: ", "Server: \r",
    "Location: ", "Allow: GET,,,", "X: ", ": value", "NoColonHere", " leading-space: x", "A\tB: c",
    "Set-Cookie: a=b; Max-Age=999999999999999999999", "Set-Cookie: a=b; Max-Age=2147483648", "Set-Cookie: a=b; Expires=garbage", "Set-Cookie: a=b; Path", "Set-Cookie: =; ;",
    "Set-Cookie: a=b; Max-Age=-1", "Set-Cookie: a=b; Domain=", "Set-Cookie: a", "Cookie: a=b; Max-Age=99999999999",
};

// request targets and whole request lines that a parser must survive
const char* kHostileTargets[] = {
    "/r?&a=1", "/r?a=1&&b=2", "/r?a&&", "/r?", "/r??", "/r?=", "/r?=&=", "/r?a=b=c", "/r?&", "/r?&&&&&&&&", "/r?a=%", "/r?a=%zz", "/r?%00=%00",
    "/?", "?", "?a", "*", "/r#frag", "/r?a=1#x", "//", "/./../..", "/r?a=1;b=2", "http://host:1/abs?x=1", "/r?a==", "/r?=a", "/r?a&=&b", "/\x01\x02", "/r?\xff=\xfe",
    "/r?a=1&", "/r?&=", "/%", "/%4", "/r?a[]=1&a[]=2", "/r?a=1&a=2&a=3",
};
const char* kHostileRequestLines[] = {
    "GET  / HTTP/1.1", "GET /\tHTTP/1.1", "GET / HTTP/1.1 extra", "get / HTTP/1.1", "GET / HTTP/9.9", "GET / HTTP/1.", "GET / HTTP/", "GET / H", "GET / ", "GET /", "GET ", "GET",
    "G", "", " GET / HTTP/1.1", "GET / HTTP/1.1\r", "XYZZY / HTTP/1.1", "GET /?a=1&&b HTTP/1.1", "GET ? HTTP/1.1", "POST /?& HTTP/1.0", "GET /a b HTTP/1.1", "GET\t/\tHTTP/1.1",
};

// Grammar-directed header lines (beside the table): (a) a numeric field with a digit string of every length from 1 to 40 -
// a fixed-size buffer or an accumulator fails at exactly one length, which a generator that jumps to "very long" never
// hits; (b) a long run of characters that are legal for the field followed by one that is not - what a validating
// pattern with nested repetition backtracks on for ever.
std::string generated_header(sim::Rng& rng)
{
    if (rng.chance(0.5)) {
        static const char* kNumeric[] = { "Content-Length: %s", "Cache-Control: max-age=%s", "Cache-Control: s-maxage=%s", "Cache-Control: max-stale=%s",
                                          "Cache-Control: min-fresh=%s", "Cache-Control: no-cache, max-age=%s, private", "Accept: text/html;q=%s", "Accept: text/plain; q=0.%s",
                                          "Accept-Encoding: gzip;q=%s", "Host: example.org:%s", "Host: [::1]:%s", "Content-Type: text/plain; q=%s", "Expect: %s", "Keep-Alive: timeout=%s" };
        size_t len = static_cast<size_t>(1 + rng.below(40));
        int style = static_cast<int>(rng.below(4));
        std::string digits;
        for (size_t i = 0; i < len; ++i) digits.push_back(style == 0 ? '0' : style == 1 ? '9' : static_cast<char>('0' + rng.below(10)));
        if (style == 0) digits.back() = '1';
        if (rng.chance(0.1)) digits.insert(0, rng.chance(0.5) ? "-" : "+");
        std::string t = kNumeric[rng.below(sizeof kNumeric / sizeof kNumeric[0])];
        return t.replace(t.find("%s"), 2, digits);
    }
    static const char* kNames[] = { "Host", "Accept", "Content-Type", "Authorization", "Cache-Control", "Accept-Encoding", "Connection", "Date", "Expect",
                                    "User-Agent", "Location", "Content-Encoding", "Access-Control-Allow-Origin", "Cookie", "Server", "Allow" };
    static const char kLegal[] = "abcdefghijklmnopqrstuvwxyzABCDEFGHIJKLMNOPQRSTUVWXYZ0123456789-._";
    static const char kIllegal[] = { ' ', '/', '!', '\x80', '\t', '"', '@', '\\', '\xff', '(' };
    std::string v;
    size_t run = static_cast<size_t>(20 + rng.below(60));
    bool dotted = rng.chance(0.6);
    for (size_t i = 0; i < run; ++i) v.push_back(dotted && i % 9 == 8 ? (rng.chance(0.7) ? '.' : '-') : kLegal[rng.below(sizeof kLegal - 1)]);
    v.push_back(kIllegal[rng.below(sizeof kIllegal)]);
    if (rng.chance(0.3)) v += msggen::token(rng, 0, 6);
    return std::string(kNames[rng.below(sizeof kNames / sizeof kNames[0])]) + ": " + v;
}

std::string hostile_message(sim::Rng& rng, size_t max_size)
{
    int k = static_cast<int>(rng.below(10));
    if (k < 5) {
        msggen::Msg m = msggen::gen_request(rng, std::min<size_t>(max_size, 1500));
        int n = static_cast<int>(rng.range(1, 4));
        for (int i = 0; i < n; ++i) msggen::mutate(rng, m);
        return m.bytes;
    }
    if (k < 9) {
        // a valid skeleton with hostile header lines
        std::string s;
        int lk = static_cast<int>(rng.below(10));
        if (lk < 4) s = std::string(rng.chance(0.8) ? "POST" : "GET") + " /" + msggen::token(rng, 0, 6) + " HTTP/1.1\r\n";
        else if (lk < 8) s = std::string(rng.chance(0.5) ? "POST " : "GET ") + kHostileTargets[rng.below(sizeof kHostileTargets / sizeof kHostileTargets[0])] + " HTTP/1.1\r\n";
        else s = std::string(kHostileRequestLines[rng.below(sizeof kHostileRequestLines / sizeof kHostileRequestLines[0])]) + "\r\n";
        int n = static_cast<int>(rng.range(1, 5));
        for (int i = 0; i < n; ++i) s += (rng.chance(0.3) ? generated_header(rng) : std::string(kHostileHeaders[rng.below(sizeof kHostileHeaders / sizeof kHostileHeaders[0])])) + "\r\n";
        s += "\r\n";
        int b = static_cast<int>(rng.below(4));
        if (b == 1) s += msggen::token(rng, 0, 300);
        else if (b == 2) s += msggen::chunked_body(rng, 400, nullptr);
        else if (b == 3) s += std::string(rng.chance(0.5) ? "ffffffffffffffff\r\n" : "-1\r\n") + msggen::token(rng, 0, 40) + "\r\n0\r\n\r\n";
        return s;
    }
    // raw garbage
    std::string s;
    size_t n = static_cast<size_t>(rng.below(600));
    for (size_t i = 0; i < n; ++i) {
        int c = static_cast<int>(rng.below(20));
        s.push_back(c == 0 ? '\r' : c == 1 ? '\n' : c == 2 ? ' ' : c == 3 ? ':' : c == 4 ? '\0' : static_cast<char>(rng.below(256)));
    }
    return s;
}

Json gen(sim::Rng& rng, int tier)
{
    Json p = Json::object();
    size_t max_size = rng.chance(0.6) ? 4096 : static_cast<size_t>(256 + rng.below(3000));
    p["max_req"] = static_cast<long>(max_size);
    p["workers"] = static_cast<int>(rng.range(1, 2));
    Json hostile = Json::array();
    int nh = static_cast<int>(rng.range(1, tier ? 4 : 3));
    for (int i = 0; i < nh; ++i) {
        Json c = Json::object();
        Json msgs = Json::array();
        int nm = static_cast<int>(rng.range(1, 3));
        for (int k = 0; k < nm; ++k) {
            Json m = Json::object();
            std::string bytes = hostile_message(rng, max_size);
            Json cuts = Json::array();
            if (rng.chance(0.12)) {
                // a slow sender: a well-formed request within the limit whose first header line is long, and whose remaining
                // header bytes arrive in very many small reads (whatever the parser keeps per read adds up)
                size_t longv = std::min<size_t>(max_size / 2, static_cast<size_t>(200 + rng.below(2800)));
                bytes = "GET /trickle HTTP/1.1\r\nX-Long: " + msggen::token(rng, static_cast<int>(longv), static_cast<int>(longv)) + "\r\n";
                size_t first = bytes.size();
                int nh = static_cast<int>(rng.range(2, 8));
                for (int h = 0; h < nh && bytes.size() + 64 < max_size; ++h) bytes += "X-H" + std::to_string(h) + ": " + msggen::token(rng, 1, 30) + "\r\n";
                bytes += "\r\n";
                size_t step = static_cast<size_t>(rng.range(1, 3));
                for (size_t x = first; x < bytes.size(); x += step) cuts.push(static_cast<long>(x));
                m["trickle"] = true;
            } else
                for (size_t x : msggen::gen_cuts(rng, bytes, 6)) cuts.push(static_cast<long>(x));
            m["msg"] = bytes;
            m["cuts"] = cuts;
            msgs.push(m);
        }
        c["messages"] = msgs;
        c["gap_us"] = static_cast<int>(300 + rng.below(2000));
        c["start_us"] = static_cast<int>(rng.below(4000));
        c["end"] = rng.chance(0.5) ? "close" : rng.chance(0.5) ? "abort" : "linger";
        hostile.push(c);
    }
    p["hostile"] = hostile;
    p["neighbour_requests"] = static_cast<int>(rng.range(2, 6));
    p["neighbour_think_us"] = static_cast<int>(rng.below(3000));
    gen_sched(rng, p, 5000, true);
    return p;
}

void run(const Json& plan)
{
    sim::Recorder& r = sim::rec();
    const int port = 9080;
    httpw::World w;
    httpw::Opts o;
    o.workers = std::max(1, std::min(3, static_cast<int>(plan.num("workers", 1))));
    o.max_req = static_cast<size_t>(std::max<i64>(64, plan.num("max_req", 4096)));
    o.port = port;
    o.header_timeout_ms = 5000;
    o.body_timeout_ms = 5000;
    w.start(o);
    if (simalloc::available()) simalloc::start();
    using actors::Step;
    std::vector<std::shared_ptr<actors::Client>> hostile;
    const Json& jh = plan.get("hostile");
    for (size_t i = 0; i < jh.size(); ++i) {
        const Json& c = jh.at(i);
        std::vector<Step> st { httpw::step(Step::Connect) };
        const Json& msgs = c.get("messages");
        i64 gap = std::max<i64>(200, c.num("gap_us", 1000)) * 1000;
        for (size_t k = 0; k < msgs.size(); ++k) {
            std::string bytes = msgs.at(k).str("msg");
            if (bytes.empty()) continue;
            std::vector<size_t> cuts;
            for (size_t q = 0; q < msgs.at(k).get("cuts").size(); ++q) {
                i64 x = msgs.at(k).get("cuts").at(q).as_int();
                if (x > 0 && x < static_cast<i64>(bytes.size())) cuts.push_back(static_cast<size_t>(x));
            }
            st.push_back(httpw::send_step(bytes, cuts, msgs.at(k).flag("trickle") ? std::min<i64>(gap, 300 * 1000) : gap));
            st.push_back(httpw::step(Step::Pause, 3 * 1000000LL)); // whatever the server makes of it
        }
        std::string end = c.str("end", "close");
        if (end == "close") st.push_back(httpw::step(Step::Close));
        else if (end == "abort") st.push_back(httpw::step(Step::Abort));
        else st.push_back(httpw::step(Step::AwaitClose, 100 * 1000000LL));
        auto cl = std::make_shared<actors::Client>(static_cast<int>(i), port, st);
        cl->custom_net = true;
        cl->to_server.mss = 65536;
        cl->start(c.num("start_us", 0) * 1000);
        hostile.push_back(cl);
    }
    // the neighbour
    int nreq = std::max(1, std::min(10, static_cast<int>(plan.num("neighbour_requests", 3))));
    std::vector<Step> st { httpw::step(Step::Connect) };
    for (int k = 0; k < nreq; ++k) {
        if (plan.num("neighbour_think_us", 0) > 0) st.push_back(httpw::step(Step::Pause, plan.num("neighbour_think_us") * 1000));
        st.push_back(httpw::send_step(actors::http_request("POST", "/echo/n" + std::to_string(k), { { "Host", "sim" }, { "Connection", "keep-alive" } }, "body" + std::to_string(k))));
        st.push_back(httpw::step(Step::Await, 1000LL * 1000000LL, k + 1));
    }
    st.push_back(httpw::step(Step::Close));
    auto nb = std::make_shared<actors::Client>(100, port, st);
    nb->start(500000);

    bool spin = false;
    const std::function<bool()> all_done = [&] {
        for (auto& a : simk::anomalies())
            if (a.kind == "send.eagain-spin" || a.kind == "epoll.idle-spin") spin = true;
        if (spin) return true;
        if (!nb->finished()) return false;
        for (auto& c : hostile)
            if (!c->finished()) return false;
        return true;
    };
    scen::wait_for(all_done, 60LL * 1000000000LL, "driver.wait-clients");
    if (spin) sim::fatal("violation", "C03.server:busy-loop", "hostile input left a worker spinning: " + simk::anomalies().back().detail);
    size_t max_alloc = simalloc::available() ? simalloc::stop() : 0;

    // ---- oracles
    for (size_t i = 0; i < hostile.size(); ++i) {
        auto& cl = hostile[i];
        if (cl->reader.broken) r.violation("C03.response:malformed", "hostile connection " + std::to_string(i) + " received bytes that are not a well-formed HTTP response: " + cl->reader.broken_why);
        for (auto& resp : cl->reader.done) {
            if (resp.status == 200) r.probe("hostile-input-served");
            else if (resp.status >= 400 && resp.status < 600) r.probe("hostile-input-error-" + std::to_string(resp.status));
            else r.violation("C03.response:unexpected-status", "hostile connection " + std::to_string(i) + " received status " + std::to_string(resp.status));
        }
        if (cl->reader.done.empty()) r.probe("hostile-input-unanswered");
    }
    if (nb->reader.broken) r.violation("C03.neighbour:malformed-response", "the well-behaved connection received bytes that are not an HTTP response: " + nb->reader.broken_why);
    for (int k = 0; k < nreq; ++k) {
        std::string what = "request " + std::to_string(k) + " of the well-behaved connection";
        if (static_cast<size_t>(k) >= nb->responses()) {
            r.violation("C03.neighbour:not-answered", what + " was not answered within a simulated second while hostile input was being handled");
            break;
        }
        const auto& resp = nb->reader.done[static_cast<size_t>(k)];
        std::string want = httpw::SimHandler::echo_body("POST", "/echo/n" + std::to_string(k), "", "body" + std::to_string(k));
        if (resp.status != 200 || resp.body != want) r.violation("C03.neighbour:wrong-answer", what + " was answered " + std::to_string(resp.status) + " '" + resp.body.substr(0, 60) + "'");
    }
    // what a handler is handed was cut out of at most max_req received bytes
    for (auto& rr : w.requests) {
        size_t kept = rr.resource.size() + rr.query.size() + rr.body.size();
        for (auto& h : rr.headers) kept += h.first.size() + h.second.size();
        if (kept > o.max_req + 16) {
            r.violation("C03.memory:message-retains-more-than-maximum-request-size", "the request " + rr.method + " " + rr.resource.substr(0, 40) + " reached the handler holding " + std::to_string(kept) + " bytes of resource, query, raw headers and body with a maximum request size of " + std::to_string(o.max_req));
            break;
        }
    }
    for (auto& rr : w.requests)
        if (rr.resource == "/trickle") r.probe("trickled-request-served");
    if (simalloc::available()) {
        r.stats["max_single_allocation"] = static_cast<i64>(max_alloc);
        size_t bound = 4 * o.max_req + 65536;
        if (max_alloc > bound)
            r.violation("C03.memory:allocation-beyond-maximum-request-size", "a single allocation of " + std::to_string(max_alloc) + " bytes was made while parsing network input with maximum request size " + std::to_string(o.max_req));
    }
    // the server is still up
    {
        std::vector<Step> fs { httpw::step(Step::Connect), httpw::send_step(actors::http_request("GET", "/echo/fresh", { { "Host", "sim" } }, "")),
                               httpw::step(Step::Await, 1000LL * 1000000LL, 1), httpw::step(Step::Close) };
        auto fresh = std::make_shared<actors::Client>(999, port, fs);
        fresh->start(0);
        const std::function<bool()> done = [&] { return fresh->finished(); };
        scen::wait_for(done, 5000LL * 1000000LL, "driver.fresh");
        if (!(fresh->responses() == 1 && fresh->reader.done[0].status == 200)) r.violation("C03.server:fresh-connection-not-served", "after the hostile input a fresh connection was not served");
    }
    for (auto& a : simk::anomalies())
        if (a.kind == "close.ebadf" || a.kind.find("epoll_ctl") == 0) r.violation("C03.server:descriptor-misuse", a.kind + ": " + a.detail);
    for (auto& c : hostile)
        if (c->sock && !c->st.closed_by_us) c->sock->close();
    w.stop();
}

Scenario sc { "c03_hostile", "C03", "hostile clients (mutations, hostile header values, garbage) x segmentations beside a well-behaved keep-alive client", gen, run };
Registrar reg(&sc);

} // namespace
