// C07 through the HTTP layer: one worker; connection A asks for 1..3 responses that are larger than its
// socket buffers - fixed-length, from an application thread, a file, or a chunked stream whose handler calls
// flush() after every chunk on the worker thread - and does not read for 0.2..3 s; 1..3 neighbours on the
// same worker issue small requests before, during and after that. Oracles: every neighbour request is
// answered within 100 simulated ms, the worker does not busy-wait (kernel anomalies), and once A reads again
// it receives everything, in order and intact.
#include "actors.h"
#include "httpworld.h"
#include "scenario.h"

using namespace scen;
using namespace Pistache;
using sim::i64;
using sim::u64;

namespace {

Json gen(sim::Rng& rng, int tier)
{
    Json p = Json::object();
    static const long bufs[] = { 512, 1024, 4096, 4096, 16384, 65536 };
    long snd = bufs[rng.below(6)], rcv = bufs[rng.below(6)];
    p["sndbuf"] = snd;
    p["rcvbuf"] = rcv;
    p["mss"] = std::min<long>(rcv, static_cast<long>(64 + rng.below(1400)));
    p["latency_us"] = static_cast<int>(5 + rng.below(300));
    u64 tag = 100000 + rng.below(800000);
    Json reqs = Json::array();
    int nr = static_cast<int>(rng.range(1, 3));
    for (int k = 0; k < nr; ++k) {
        Json q = Json::object();
        int kind = static_cast<int>(rng.below(10));
        q["kind"] = kind < 3 ? "size" : kind < 4 ? "async" : kind < 5 ? "file" : kind < 8 ? "stream" : "astream";
        if (rng.chance(0.12)) q["kind"] = "hints";
        else if (rng.chance(0.08)) q["kind"] = "astreamp";
        q["tag"] = static_cast<long long>(tag += 10);
        q["size"] = snd + rcv + static_cast<long>(1000 + rng.below(tier ? 150000 : 60000));
        q["chunks"] = static_cast<int>(rng.range(2, 6));
        reqs.push(q);
    }
    p["requests"] = reqs;
    p["stall_ms"] = static_cast<int>(200 + rng.below(tier ? 3000 : 1500));
    // what the stalled client does while it is not reading: nothing (a well-behaved browser), or it goes on *sending* - the
    // head of its next request, a whole small request (its answer queues behind the blocked one), or most of a large upload
    // (tens of KB of input on the very connection that cannot be written to, none of which completes a request yet)
    {
        int d = static_cast<int>(rng.below(10));
        p["during_stall"] = d < 5 ? "nothing" : d < 7 ? "next-head" : d < 8 ? "whole-request" : "upload";
        p["upload_len"] = static_cast<int>(20000 + rng.below(110000));
        p["during_at_permille"] = static_cast<int>(50 + rng.below(900));
    }
    Json nbs = Json::array();
    int nb = static_cast<int>(rng.range(1, 3));
    for (int i = 0; i < nb; ++i) {
        Json c = Json::object();
        c["start_us"] = static_cast<int>(rng.below(100000));
        Json gaps = Json::array();
        int n = static_cast<int>(rng.range(1, 4));
        for (int k = 0; k < n; ++k) gaps.push(static_cast<int>(rng.below(60000)));
        c["gaps_us"] = gaps;
        c["latency_us"] = static_cast<int>(5 + rng.below(200));
        nbs.push(c);
    }
    // now and then a crowd of neighbours: 40..80 connections of the same worker send their one request within a few
    // milliseconds of each other while the stalled connection is parked - more descriptors ready in one poll than any
    // per-round bound somebody might have picked
    if (rng.chance(0.05)) {
        nbs = Json::array();
        int n = static_cast<int>(40 + rng.below(41));
        int at = static_cast<int>(rng.below(150000));
        int gap = static_cast<int>(20000 + rng.below(3000)), lat = static_cast<int>(5 + rng.below(100));
        for (int i = 0; i < n; ++i) {
            Json c = Json::object();
            c["start_us"] = at + static_cast<int>(rng.below(2000)); // connected one after the other ...
            Json gaps = Json::array();
            gaps.push(gap + 2000 - static_cast<int>(c.num("start_us") - at)); // ... and sending at the same instant
            c["gaps_us"] = gaps;
            c["latency_us"] = lat;
            nbs.push(c);
        }
        p["crowd"] = true;
    }
    // short read time-outs, now and then: the stalled connection stays stalled over two or more idle scans past the time-out,
    // so that the framework itself queues 408 answers (each with a continuation that ends the connection) behind the blocked
    // response; neighbours are new connections that arrive before, during and after all of that
    if (!p.flag("crowd") && p.str("during_stall") == "nothing" && rng.chance(0.2)) {
        p["short_timeouts_ms"] = 1000;
        p["stall_ms"] = static_cast<int>(2400 + rng.below(1400));
        nbs = Json::array();
        int n = static_cast<int>(rng.range(3, 7));
        for (int i = 0; i < n; ++i) {
            Json c = Json::object();
            c["start_us"] = static_cast<int>(rng.below(static_cast<u64>(p.num("stall_ms", 2400) + 1500) * 1000));
            Json gaps = Json::array();
            gaps.push(static_cast<int>(rng.below(50000)));
            c["gaps_us"] = gaps;
            c["latency_us"] = static_cast<int>(5 + rng.below(200));
            nbs.push(c);
        }
    }
    p["neighbours"] = nbs;
    gen_sched(rng, p, 5000, false);
    return p;
}

void run(const Json& plan)
{
    sim::Recorder& r = sim::rec();
    const int port = 9080;
    httpw::World w;
    const Json& reqs = plan.get("requests");
    struct Want { std::string kind, target, body; };
    std::vector<Want> wants;
    size_t total = 0;
    for (size_t k = 0; k < reqs.size(); ++k) {
        const Json& q = reqs.at(k);
        Want wt;
        wt.kind = q.str("kind", "size");
        u64 tag = static_cast<u64>(q.num("tag"));
        size_t size = static_cast<size_t>(std::max<i64>(1, std::min<i64>(q.num("size", 1000), 400000)));
        if (wt.kind == "file") {
            w.make_file(std::to_string(tag), size);
            wt.target = "/file/" + std::to_string(tag);
            wt.body = actors::pattern(tag, size);
        } else if (wt.kind == "stream" || wt.kind == "astream" || wt.kind == "hints" || wt.kind == "astreamp") {
            int ch = std::max(1, std::min(8, static_cast<int>(q.num("chunks", 2))));
            size_t n = std::max<size_t>(1, size / static_cast<size_t>(ch));
            wt.target = "/" + wt.kind + "/" + std::to_string(ch) + "/" + std::to_string(n) + "/" + std::to_string(tag);
            for (int x = 0; x < ch; ++x) wt.body += actors::pattern(tag + static_cast<u64>(x), n);
        } else {
            if (wt.kind != "async") wt.kind = "size";
            wt.target = "/" + wt.kind + "/" + std::to_string(size) + "/" + std::to_string(tag);
            wt.body = actors::pattern(tag, size);
        }
        total += wt.body.size();
        wants.push_back(wt);
    }
    httpw::Opts o;
    o.workers = 1;
    o.port = port;
    o.max_req = 200000;
    const i64 short_to = std::max<i64>(0, std::min<i64>(plan.num("short_timeouts_ms", 0), 10000));
    if (short_to > 0) {
        o.header_timeout_ms = o.body_timeout_ms = short_to;
        wants.resize(1); // the server ends the connection behind its 408
        r.probe("stalled-across-idle-scans");
    }
    w.start(o);
    // the extra request that the stalled client sends while it does not read (answered second, behind the blocked response)
    const std::string during = plan.str("during_stall", "nothing");
    std::string extra, extra_want;
    size_t extra_first = 0; // bytes of it sent during the stall
    if (during != "nothing") {
        std::string body = during == "upload" ? actors::pattern(4242, static_cast<size_t>(std::max<i64>(1000, std::min<i64>(plan.num("upload_len", 40000), 150000)))) : std::string("stalled-sender");
        extra = actors::http_request("POST", "/echo/during", { { "Host", "sim" }, { "Connection", "keep-alive" } }, body);
        extra_want = httpw::SimHandler::echo_body("POST", "/echo/during", "", body);
        extra_first = during == "whole-request" ? extra.size() : during == "upload" ? extra.size() - 100 : std::min<size_t>(extra.size() - 1, 30);
        r.probe("during-stall-" + during);
    }

    using actors::Step;
    const i64 stall = std::max<i64>(1, std::min<i64>(plan.num("stall_ms", 500), 10000)) * 1000000LL;
    std::vector<Step> st { httpw::step(Step::Connect), httpw::step(Step::StopReading) };
    const bool pipelined = false; // Pistache does not parse a second request out of the read that completed the first
    if (pipelined) {
        std::string all;
        for (auto& wt : wants) all += actors::http_request("GET", wt.target, { { "Host", "sim" }, { "Connection", "keep-alive" } }, "");
        st.push_back(httpw::send_step(all));
    } else
        st.push_back(httpw::send_step(actors::http_request("GET", wants[0].target, { { "Host", "sim" }, { "Connection", "keep-alive" } }, "")));
    if (extra.empty())
        st.push_back(httpw::step(Step::Pause, stall));
    else {
        const i64 at = stall * std::max<i64>(1, std::min<i64>(plan.num("during_at_permille", 500), 999)) / 1000;
        st.push_back(httpw::step(Step::Pause, at));
        st.push_back(httpw::send_step(extra.substr(0, extra_first)));
        st.push_back(httpw::step(Step::Pause, stall - at));
    }
    st.push_back(httpw::step(Step::ResumeReading));
    if (!extra.empty() && extra_first < extra.size()) st.push_back(httpw::send_step(extra.substr(extra_first)));
    if (pipelined)
        st.push_back(httpw::step(Step::Await, 120LL * 1000000000LL, static_cast<int>(wants.size())));
    else
        for (size_t k = 0; k < wants.size(); ++k) {
            if (k > 0) st.push_back(httpw::send_step(actors::http_request("GET", wants[k].target, { { "Host", "sim" }, { "Connection", "keep-alive" } }, "")));
            st.push_back(httpw::step(Step::Await, 120LL * 1000000000LL, static_cast<int>(k + 1 + (extra.empty() ? 0 : 1))));
        }
    if (short_to > 0) st.push_back(httpw::step(Step::AwaitClose, 3000LL * 1000000LL));
    st.push_back(httpw::step(Step::Close));
    auto a = std::make_shared<actors::Client>(0, port, st);
    a->custom_net = true;
    a->from_server.sndbuf = static_cast<size_t>(std::max<i64>(64, plan.num("sndbuf", 65536)));
    a->from_server.rcvbuf = static_cast<size_t>(std::max<i64>(64, plan.num("rcvbuf", 65536)));
    a->from_server.mss = static_cast<size_t>(std::max<i64>(16, std::min<i64>(plan.num("mss", 1460), static_cast<i64>(a->from_server.rcvbuf))));
    a->from_server.latency_ns = a->to_server.latency_ns = std::max<i64>(1, plan.num("latency_us", 50)) * 1000;
    a->start(0);

    if (plan.flag("crowd")) r.probe("neighbour-crowd");
    const Json& jn = plan.get("neighbours");
    std::vector<std::shared_ptr<actors::Client>> nbs;
    std::vector<size_t> nb_requests;
    for (size_t i = 0; i < jn.size(); ++i) {
        const Json& c = jn.at(i);
        std::vector<Step> ns { httpw::step(Step::Connect) };
        const Json& gaps = c.get("gaps_us");
        for (size_t k = 0; k < gaps.size(); ++k) {
            ns.push_back(httpw::step(Step::Pause, std::max<i64>(0, gaps.at(k).as_int()) * 1000));
            ns.push_back(httpw::send_step(actors::http_request("POST", "/echo/n" + std::to_string(i) + "x" + std::to_string(k), { { "Host", "sim" }, { "Connection", "keep-alive" } }, "b" + std::to_string(k))));
            ns.push_back(httpw::step(Step::Await, 5LL * 1000000000LL, static_cast<int>(k + 1)));
        }
        ns.push_back(httpw::step(Step::Close));
        auto cl = std::make_shared<actors::Client>(static_cast<int>(i + 1), port, ns);
        cl->custom_net = true;
        cl->to_server.latency_ns = cl->from_server.latency_ns = std::max<i64>(1, c.num("latency_us", 50)) * 1000;
        cl->start(std::max<i64>(0, c.num("start_us", 0)) * 1000);
        nbs.push_back(cl);
        nb_requests.push_back(gaps.size());
    }

    bool spin = false;
    const std::function<bool()> all_done = [&] {
        for (auto& an : simk::anomalies())
            if (an.kind == "send.eagain-spin" || an.kind == "epoll.idle-spin") spin = true;
        if (spin) return true;
        if (!a->finished()) return false;
        for (auto& c : nbs)
            if (!c->finished()) return false;
        return true;
    };
    scen::wait_for(all_done, 300LL * 1000000000LL, "driver.wait-clients");
    if (spin) sim::fatal("violation", "C07.busy-wait:spin", "the worker spins while a connection cannot be written to: " + simk::anomalies().back().detail);

    // neighbours: answered correctly and promptly
    for (size_t i = 0; i < nbs.size(); ++i) {
        auto& cl = nbs[i];
        for (size_t k = 0; k < nb_requests[i]; ++k) {
            std::string who = "neighbour " + std::to_string(i) + " request " + std::to_string(k);
            if (k >= cl->responses()) {
                r.violation("C07.latency:neighbour-not-answered", who + " got no answer within 5 simulated seconds while another connection of the worker could not be written to");
                break;
            }
            const auto& resp = cl->reader.done[k];
            std::string want = httpw::SimHandler::echo_body("POST", "/echo/n" + std::to_string(i) + "x" + std::to_string(k), "", "b" + std::to_string(k));
            if (resp.status != 200 || resp.body != want) r.violation("C07.neighbour:wrong-answer", who + " was answered " + std::to_string(resp.status));
            i64 took = k < cl->st.send_done.size() ? resp.done_at - cl->st.send_done[k] : 0;
            r.stats["neighbour_latency_max_us"] = std::max<i64>(r.stats["neighbour_latency_max_us"], took / 1000);
            if (took > 100 * 1000000LL)
                r.violation("C07.latency:neighbour-not-answered-in-time", who + " was answered after " + std::to_string(took / 1000000) + " ms while connection 0 was not reading");
        }
    }
    // the stalled connection: everything delivered afterwards
    if (a->reader.broken) r.violation("C07.delivery:stream-not-a-sequence-of-responses", "connection 0 received bytes that are not a sequence of responses: " + a->reader.broken_why);
    else {
        if (!extra.empty()) {
            Want ew;
            ew.kind = "during-" + during;
            ew.target = "/echo/during";
            ew.body = extra_want;
            wants.insert(wants.begin() + 1, ew);
        }
        if (short_to > 0) {
            // behind the response the connection gets the idle scan's 408(s) and is closed by the server
            for (size_t k = wants.size(); k < a->responses(); ++k)
                if (a->reader.done[k].status != 408) r.violation("C07.delivery:unexpected-response", "connection 0 received a response with status " + std::to_string(a->reader.done[k].status) + " behind its own");
        }
        if (short_to > 0 ? a->responses() < wants.size() : a->responses() != wants.size()) r.violation("C07.delivery:responses-missing", "connection 0 received " + std::to_string(a->responses()) + " of " + std::to_string(wants.size()) + " responses after it resumed reading");
        for (size_t k = 0; k < a->responses() && k < wants.size(); ++k) {
            r.probe("stalled-" + wants[k].kind);
            if (a->reader.done[k].status != 200 || a->reader.done[k].body != wants[k].body)
                r.violation("C07.delivery:body-differs:" + wants[k].kind, "connection 0 response " + std::to_string(k + 1) + " (" + wants[k].target + ") has status " + std::to_string(a->reader.done[k].status) + " and a body of " + std::to_string(a->reader.done[k].body.size()) + " bytes (expected " + std::to_string(wants[k].body.size()) + ")");
        }
    }
    u64 eagain = 0;
    for (auto& s : simk::sock_stats()) eagain += s.send_eagain;
    if (eagain) r.probe("eagain-branch", static_cast<i64>(eagain));
    r.stats["body_bytes"] = static_cast<i64>(total);
    if (a->sock && !a->st.closed_by_us) a->sock->close();
    for (auto& c : nbs)
        if (c->sock && !c->st.closed_by_us) c->sock->close();
    sim::sleep_ns(5 * 1000000);
    w.stop();
}

Scenario sc { "c07_http", "C07", "a keep-alive client that stops reading large fixed-length / streamed / file responses while neighbours issue requests (HTTP layer, one worker)", gen, run };
Registrar reg(&sc);

} // namespace
