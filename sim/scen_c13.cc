// C13 — cross-thread queue: no loss, duplication, reordering or missed wake-up.
//
// Real Pistache::PollableQueue bound to a real Polling::Epoll on the simulated kernel
// (eventfd + epoll are simulated); 1..P producer threads push, one consumer thread drains
// exactly like Transport::handleWriteQueue does. The scheduler interleaves at the atomic
// exchange, the link store, the tail read (yield points in mailbox.h) and at every eventfd
// read/write and epoll call (system call wrappers).
#include <pistache/mailbox.h>
#include <pistache/os.h>

#include <memory>
#include <thread>

#include "scenario.h"

using namespace scen;
using sim::i64;

namespace {

struct Item {
    int producer;
    int seq;
};

Json gen(sim::Rng& rng, int tier)
{
    Json p = Json::object();
    int maxp = tier ? 4 : 3, maxn = tier ? 5 : 3;
    int np = static_cast<int>(rng.range(1, maxp));
    Json prods = Json::array();
    for (int i = 0; i < np; ++i) {
        Json pr = Json::object();
        pr["pushes"] = static_cast<int>(rng.range(1, maxn));
        pr["start_delay_us"] = rng.chance(0.5) ? 0 : static_cast<int>(rng.below(300));
        pr["gap_us"] = rng.chance(0.6) ? 0 : static_cast<int>(rng.below(200));
        prods.push(pr);
    }
    p["producers"] = prods;
    p["kind"] = rng.chance(0.85) ? "pollable" : "plain";
    p["prefill"] = rng.chance(0.2) ? static_cast<int>(rng.range(1, 2)) : 0; // items pushed by the driver before the consumer starts
    p["consumer_delay_us"] = rng.chance(0.5) ? 0 : static_cast<int>(rng.below(300));
    gen_sched(rng, p, 300);
    // a quarter of the runs churn: more producers and pushes, and threads are often descheduled for a while in the middle of a
    // push or pop (at the yield points of mailbox.h by name, and at a random subset of all sites by hash bucket - which also
    // reaches yield points that a change adds), so that whole push/pop cycles of the others fit into the gap
    if (rng.chance(0.25)) {
        Json pr2 = Json::array();
        int np2 = static_cast<int>(rng.range(3, 4));
        for (int i = 0; i < np2; ++i) {
            Json pr = Json::object();
            pr["pushes"] = static_cast<int>(rng.range(2, tier ? 6 : 4));
            pr["start_delay_us"] = static_cast<int>(rng.below(100));
            pr["gap_us"] = rng.chance(0.5) ? 0 : static_cast<int>(rng.below(100));
            pr2.push(pr);
        }
        p["producers"] = pr2;
        static const char* kSites[] = { "queue.push.exchange", "queue.push.link", "queue.pop.load", "sys.eventfd_write", "sys.write", "sys.read" };
        Json hs = Json::array();
        int n = static_cast<int>(rng.range(1, 2));
        for (int i = 0; i < n; ++i) hs.push(std::string(kSites[rng.below(sizeof kSites / sizeof kSites[0])]));
        p["sched"]["hot_sites"] = hs;
        unsigned mask = (1u << rng.below(16)) | (1u << rng.below(16)) | (1u << rng.below(16));
        p["sched"]["hot_buckets"] = static_cast<int>(mask);
        p["sched"]["hot_pause_permille"] = static_cast<int>(100 + rng.below(500));
        p["sched"]["pause_max_us"] = static_cast<int>(50 + rng.below(600));
        p["sched"]["max_pauses"] = static_cast<int>(4 + rng.below(20));
    }
    return p;
}

void run(const Json& plan)
{
    const Json& prods = plan.get("producers");
    const bool pollable = plan.str("kind", "pollable") != "plain";
    const int prefill = static_cast<int>(plan.num("prefill", 0));
    const int poll_timeout = 1000;

    Pistache::Polling::Epoll poller;
    Pistache::PollableQueue<Item> pq;
    Pistache::Queue<Item> q;
    if (pollable) pq.bind(poller);

    int total = prefill;
    for (size_t i = 0; i < prods.size(); ++i) total += static_cast<int>(prods.at(i).num("pushes", 1));

    // shared harness state (only touched under the baton)
    struct Shared {
        int pushes_completed = 0;
        int producers_done = 0;
        std::vector<Item> popped;
        bool missed_wakeup = false;
        int popped_at_miss = 0, completed_at_miss = 0;
        int timeouts = 0;
        int wakeups = 0;
    } sh;

    auto push = [&](Item it) {
        if (pollable) pq.push(it);
        else q.push(it);
        sim::IgnoreScope ig;
        sh.pushes_completed++;
    };

    for (int i = 0; i < prefill; ++i) push(Item { -1, i });

    std::vector<std::thread> threads;
    for (size_t pi = 0; pi < prods.size(); ++pi) {
        const Json& pr = prods.at(pi);
        int n = static_cast<int>(pr.num("pushes", 1));
        i64 start = pr.num("start_delay_us", 0) * 1000, gap = pr.num("gap_us", 0) * 1000;
        threads.emplace_back([&, pi, n, start, gap] {
            sim::set_self_name(("producer" + std::to_string(pi)).c_str());
            if (start > 0) sim::sleep_ns(start);
            for (int s = 0; s < n; ++s) {
                push(Item { static_cast<int>(pi), s });
                if (gap > 0 && s + 1 < n) sim::sleep_ns(gap);
            }
            sim::IgnoreScope ig;
            sh.producers_done++;
        });
    }

    i64 cdelay = plan.num("consumer_delay_us", 0) * 1000;
    std::thread consumer([&] {
        sim::set_self_name("consumer");
        if (cdelay > 0) sim::sleep_ns(cdelay);
        auto drain = [&] {
            for (;;) {
                std::unique_ptr<Item> e = pollable ? pq.popSafe() : q.popSafe();
                if (!e) break;
                sim::IgnoreScope ig;
                sh.popped.push_back(*e);
            }
        };
        if (!pollable) {
            // plain queue: poll by spinning with a yield (no notification to test)
            int spins = 0;
            while (static_cast<int>(sh.popped.size()) < total && spins < 20000) {
                drain();
                sim::sleep_ns(1000);
                spins++;
            }
            return;
        }
        while (static_cast<int>(sh.popped.size()) < total) {
            std::vector<Pistache::Polling::Event> events;
            int n = poller.poll(events, std::chrono::milliseconds(poll_timeout));
            if (n == 0) {
                // The loop slept through a whole time-out. Every push that had returned before now
                // has written its notification; if such an item is still queued, the wake-up was lost.
                sim::IgnoreScope ig;
                sh.timeouts++;
                if (static_cast<int>(sh.popped.size()) < sh.pushes_completed && !sh.missed_wakeup) {
                    sh.missed_wakeup = true;
                    sh.popped_at_miss = static_cast<int>(sh.popped.size());
                    sh.completed_at_miss = sh.pushes_completed;
                }
                if (sh.timeouts > 50) break;
                if (sh.missed_wakeup) {
                    // recover so that the rest of the oracle can still be evaluated
                }
            }
            bool mine = n == 0; // after a miss, drain anyway to finish the run
            for (auto& ev : events)
                if (ev.tag == pq.tag()) mine = true;
            if (mine) {
                sim::IgnoreScope ig;
                sh.wakeups++;
            }
            if (mine) drain();
        }
    });

    for (auto& t : threads) t.join();
    consumer.join();

    // ---- oracle
    sim::Recorder& r = sim::rec();
    r.stats["pushed"] = total;
    r.stats["popped"] = static_cast<i64>(sh.popped.size());
    if (sh.missed_wakeup) {
        r.violation("C13.wakeup:consumer-asleep-with-item-queued",
                    "event loop slept through a " + std::to_string(poll_timeout) + " ms poll although " + std::to_string(sh.completed_at_miss)
                        + " pushes had completed and only " + std::to_string(sh.popped_at_miss) + " items had been popped");
    }
    std::map<std::pair<int, int>, int> seen;
    std::map<int, int> last;
    for (auto& it : sh.popped) {
        seen[{ it.producer, it.seq }]++;
        auto l = last.find(it.producer);
        if (l != last.end() && it.seq <= l->second && seen[{ it.producer, it.seq }] == 1)
            r.violation("C13.order:per-producer-order-broken", "producer " + std::to_string(it.producer) + " item " + std::to_string(it.seq) + " popped after item " + std::to_string(l->second));
        last[it.producer] = std::max(it.seq, l == last.end() ? -1 : l->second);
    }
    for (auto& kv : seen)
        if (kv.second > 1) r.violation("C13.once:item-popped-twice", "producer " + std::to_string(kv.first.first) + " item " + std::to_string(kv.first.second) + " popped " + std::to_string(kv.second) + " times");
    if (static_cast<int>(seen.size()) < total) r.violation("C13.once:item-lost", std::to_string(total - static_cast<int>(seen.size())) + " of " + std::to_string(total) + " pushed items were never popped");
    if (sh.wakeups > 0) r.probe("consumer-woken", sh.wakeups);
    if (prefill) r.probe("prefilled-before-consumer");
    if (!pollable) r.probe("plain-queue");
}

Scenario sc { "c13_queue", "C13", "PollableQueue producers x epoll consumer: exactly-once, order, no missed wake-up", gen, run };
Registrar reg(&sc);

} // namespace
