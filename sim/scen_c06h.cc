// C06 through the HTTP layer: ResponseWriter::send, serveFile, ResponseStream and replies from an
// application thread, against keep-alive clients with small socket buffers, segment sizes and paced
// reading, with short writes / would-block / EINTR injected. Oracles: responses arrive in request
// order, each exactly once, with exactly the body the handler produced; the send promise is
// fulfilled once with the number of bytes that made up the response on the wire; bounded liveness.
#include "actors.h"
#include "httpworld.h"
#include "scenario.h"

using namespace scen;
using namespace Pistache;
using sim::i64;
using sim::u64;

namespace {

Json gen(sim::Rng& rng, int tier)
{
    Json p = Json::object();
    p["workers"] = static_cast<int>(rng.range(1, 2));
    p["app_delay_us"] = static_cast<int>(rng.below(3000));
    Json conns = Json::array();
    int nc = static_cast<int>(rng.range(1, tier ? 4 : 3));
    u64 tag = 100000 + rng.below(800000);
    static const long bufs[] = { 64, 512, 1024, 4096, 4096, 16384, 65536 };
    static const long sizes[] = { 0, 1, 100, 511, 512, 513, 4096, 5000, 20000, 70000, 150000 };
    for (int i = 0; i < nc; ++i) {
        Json c = Json::object();
        long snd = bufs[rng.below(7)], rcv = bufs[rng.below(7)];
        c["sndbuf"] = snd;
        c["rcvbuf"] = rcv;
        c["mss"] = std::min<long>(rcv, static_cast<long>(16 + rng.below(1500)));
        c["latency_us"] = static_cast<int>(5 + rng.below(300));
        if (rng.chance(0.5)) {
            c["read_burst"] = static_cast<long>(64 + rng.below(20000));
            c["read_interval_us"] = static_cast<int>(rng.below(300));
        }
        Json reqs = Json::array();
        int nr = static_cast<int>(rng.range(1, tier ? 6 : 4));
        for (int k = 0; k < nr; ++k) {
            Json q = Json::object();
            int kind = static_cast<int>(rng.below(10));
            q["kind"] = kind < 3 ? "size" : kind < 5 ? "async" : kind < 7 ? "file" : kind < 9 ? "stream" : "astream";
            if (rng.chance(0.1)) q["kind"] = "hints";
            else if (rng.chance(0.1)) q["kind"] = "astreamp";
            q["tag"] = static_cast<long long>(tag += 10);
            q["size"] = sizes[rng.below(sizeof sizes / sizeof sizes[0])];
            q["chunks"] = static_cast<int>(rng.range(1, 5));
            reqs.push(q);
        }
        c["requests"] = reqs;
        c["start_us"] = static_cast<int>(rng.below(3000));
        conns.push(c);
    }
    p["conns"] = conns;
    Json f = Json::object();
    if (rng.chance(0.5)) f["short_write_permille"] = static_cast<int>(rng.below(300));
    if (rng.chance(0.3)) f["eagain_permille"] = static_cast<int>(rng.below(80));
    if (rng.chance(0.3)) f["eintr_permille"] = static_cast<int>(rng.below(80));
    p["faults"] = f;
    gen_sched(rng, p, 5000, true);
    return p;
}

void run(const Json& plan)
{
    sim::Recorder& r = sim::rec();
    const int port = 9080;
    httpw::World w;
    const Json& conns = plan.get("conns");
    for (size_t i = 0; i < conns.size(); ++i)
        for (size_t k = 0; k < conns.at(i).get("requests").size(); ++k) {
            const Json& q = conns.at(i).get("requests").at(k);
            if (q.str("kind") == "file") w.make_file(std::to_string(q.num("tag")), static_cast<size_t>(std::max<i64>(1, q.num("size", 100))));
        }
    const Json& jf = plan.get("faults");
    simk::Faults& F = simk::faults();
    F.short_write_p = static_cast<double>(jf.num("short_write_permille", 0)) / 1000.0;
    F.eagain_p = static_cast<double>(jf.num("eagain_permille", 0)) / 1000.0;
    F.epoll_eintr_p = static_cast<double>(jf.num("eintr_permille", 0)) / 1000.0;
    httpw::Opts o;
    o.workers = std::max(1, std::min(3, static_cast<int>(plan.num("workers", 1))));
    o.port = port;
    o.app_delay_ns = plan.num("app_delay_us", 0) * 1000;
    w.start(o);

    struct Want { std::string kind, target, body; };
    std::vector<std::shared_ptr<actors::Client>> clients;
    std::vector<std::vector<Want>> wants(conns.size());
    using actors::Step;
    size_t total_bytes = 0;
    for (size_t i = 0; i < conns.size(); ++i) {
        const Json& c = conns.at(i);
        std::vector<Step> st { httpw::step(Step::Connect) };
        const Json& reqs = c.get("requests");
        for (size_t k = 0; k < reqs.size(); ++k) {
            const Json& q = reqs.at(k);
            Want wt;
            wt.kind = q.str("kind", "size");
            u64 tag = static_cast<u64>(q.num("tag"));
            size_t size = static_cast<size_t>(std::max<i64>(0, q.num("size", 100)));
            if (wt.kind == "file") {
                size = std::max<size_t>(1, size);
                wt.target = "/file/" + std::to_string(tag);
                wt.body = actors::pattern(tag, size);
            } else if (wt.kind == "stream" || wt.kind == "astream" || wt.kind == "hints" || wt.kind == "astreamp") {
                int ch = std::max(1, std::min(6, static_cast<int>(q.num("chunks", 2))));
                size_t n = std::max<size_t>(1, std::min<size_t>(size, 20000));
                wt.target = "/" + wt.kind + "/" + std::to_string(ch) + "/" + std::to_string(n) + "/" + std::to_string(tag);
                for (int x = 0; x < ch; ++x) wt.body += actors::pattern(tag + static_cast<u64>(x), n);
            } else {
                wt.target = "/" + wt.kind + "/" + std::to_string(size) + "/" + std::to_string(tag);
                wt.body = actors::pattern(tag, size);
            }
            total_bytes += wt.body.size();
            wants[i].push_back(wt);
            st.push_back(httpw::send_step(actors::http_request("GET", wt.target, { { "Host", "sim" }, { "Connection", "keep-alive" } }, "")));
            st.push_back(httpw::step(Step::Await, 60LL * 1000000000LL, static_cast<int>(k + 1)));
        }
        st.push_back(httpw::step(Step::Close));
        auto cl = std::make_shared<actors::Client>(static_cast<int>(i), port, st);
        cl->custom_net = true;
        cl->from_server.sndbuf = static_cast<size_t>(std::max<i64>(16, c.num("sndbuf", 65536)));
        cl->from_server.rcvbuf = static_cast<size_t>(std::max<i64>(16, c.num("rcvbuf", 65536)));
        cl->from_server.mss = static_cast<size_t>(std::max<i64>(1, std::min<i64>(c.num("mss", 1460), static_cast<i64>(cl->from_server.rcvbuf))));
        cl->from_server.latency_ns = cl->to_server.latency_ns = std::max<i64>(1, c.num("latency_us", 50)) * 1000;
        cl->read_burst = static_cast<size_t>(std::max<i64>(0, c.num("read_burst", 0)));
        cl->read_interval_ns = c.num("read_interval_us", 0) * 1000;
        cl->start(c.num("start_us", 0) * 1000);
        clients.push_back(cl);
    }
    bool spin = false;
    const std::function<bool()> all_done = [&] {
        for (auto& a : simk::anomalies())
            if (a.kind == "send.eagain-spin" || a.kind == "epoll.idle-spin") spin = true;
        if (spin) return true;
        for (auto& c : clients)
            if (!c->finished()) return false;
        return true;
    };
    scen::wait_for(all_done, 200LL * 1000000000LL, "driver.wait-clients");
    if (spin) sim::fatal("violation", "C07.busy-wait:spin", "a worker spins: " + simk::anomalies().back().detail);
    // a promise is settled by the worker after the last byte was accepted; give a (possibly stalled) worker time to get there
    const std::function<bool()> settled = [&] {
        for (auto& sr : w.sends)
            if (sr.fulfilled + sr.rejected == 0) return false;
        return true;
    };
    scen::wait_for(settled, 2LL * 1000000000LL, "driver.wait-promises");

    for (size_t i = 0; i < clients.size(); ++i) {
        auto& cl = clients[i];
        std::string who = "connection " + std::to_string(i);
        if (cl->reader.broken) {
            r.violation("C06.http:stream-not-a-sequence-of-responses", who + ": the bytes received are not a sequence of well-formed responses: " + cl->reader.broken_why);
            continue;
        }
        if (cl->responses() != wants[i].size() && !cl->st.reset)
            r.violation("C06.http:responses-missing", who + ": " + std::to_string(cl->responses()) + " of " + std::to_string(wants[i].size()) + " responses arrived although the client stayed connected and kept reading");
        for (size_t k = 0; k < cl->responses() && k < wants[i].size(); ++k) {
            const auto& resp = cl->reader.done[k];
            const Want& wt = wants[i][k];
            std::string what = who + " response " + std::to_string(k + 1) + " (" + wt.target + ")";
            r.probe("http-" + wt.kind);
            if (resp.status != 200) r.violation("C06.http:wrong-status:" + wt.kind, what + " has status " + std::to_string(resp.status));
            else if (resp.body != wt.body) {
                size_t d = 0;
                while (d < resp.body.size() && d < wt.body.size() && resp.body[d] == wt.body[d]) d++;
                r.violation("C06.http:body-differs:" + wt.kind, what + " has a body of " + std::to_string(resp.body.size()) + " bytes (expected " + std::to_string(wt.body.size()) + "), first difference at offset " + std::to_string(d));
            }
            if ((wt.kind == "stream" || wt.kind == "astream" || wt.kind == "hints" || wt.kind == "astreamp") != resp.chunked) r.violation("C06.http:wrong-framing:" + wt.kind, what + (resp.chunked ? " is chunked" : " is not chunked"));
            // the promise of the send: fulfilled once with the bytes of the response on the wire
            for (auto& sr : w.sends) {
                if (sr.what != wt.target) continue;
                if (sr.fulfilled + sr.rejected > 1) r.violation("C06.promise:settled-twice", what + ": promise settled " + std::to_string(sr.fulfilled + sr.rejected) + " times");
                if (sr.rejected && !cl->st.reset) r.violation("C06.promise:rejected-although-connected", what + ": promise rejected (" + sr.error + ")");
                if (sr.fulfilled) {
                    long want = wt.kind == "file" ? static_cast<long>(wt.body.size()) : static_cast<long>(resp.raw_len);
                    if (sr.value != want) r.violation("C06.promise:wrong-value:" + wt.kind, what + ": promise fulfilled with " + std::to_string(sr.value) + ", the response on the wire has " + std::to_string(want) + " bytes" + (wt.kind == "file" ? " of file content" : ""));
                }
                if (!sr.fulfilled && !sr.rejected && cl->finished()) r.violation("C06.liveness:promise-never-fulfilled", what + ": the response arrived completely but its promise was never settled");
            }
        }
    }
    r.stats["body_bytes"] = static_cast<i64>(total_bytes);
    u64 eagain = 0;
    for (auto& s : simk::sock_stats()) eagain += s.send_eagain;
    if (eagain) r.probe("eagain-branch", static_cast<i64>(eagain));
    for (auto& cl : clients)
        if (cl->sock && !cl->st.closed_by_us) cl->sock->close();
    sim::sleep_ns(5 * 1000000);
    w.stop();
    auto cs = simk::census();
    if (cs.count("realfile")) r.violation("C06.fd:file-descriptor-leaked", std::to_string(cs["realfile"]) + " descriptor(s) opened for file responses were never closed");
}

Scenario sc { "c06_http", "C06", "ResponseWriter::send / serveFile / ResponseStream / replies from another thread under short writes and would-block", gen, run };
Registrar reg(&sc);

} // namespace
