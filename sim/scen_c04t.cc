// C04 and response time-outs: a handler arms ResponseWriter::timeoutAfter and keeps the response; the request it
// belongs to was completed (handed to the handler) long ago, and the connection's parser belongs to the NEXT request
// by the time the timer fires. The next request arrives in two or three segments with the timer firing in
// between; it must be parsed exactly as on a fresh connection, where the same segments arrive with the same pauses.
#include "actors.h"
#include "httpworld.h"
#include "scenario.h"

using namespace scen;
using namespace Pistache;
using sim::i64;
using sim::u64;

namespace {

Json gen(sim::Rng& rng, int)
{
    Json p = Json::object();
    p["workers"] = static_cast<int>(rng.range(1, 2));
    p["tmo_ms"] = static_cast<int>(40 + rng.below(300));
    p["first_part_at_us"] = static_cast<int>(500 + rng.below(20000));
    p["rest_after_timer_us"] = static_cast<int>(2000 + rng.below(200000));
    p["body_len"] = static_cast<int>(1 + rng.below(1200));
    p["cut_permille"] = static_cast<int>(1 + rng.below(998));
    p["cut2_permille"] = rng.chance(0.4) ? static_cast<int>(1 + rng.below(998)) : 0;
    p["tag"] = static_cast<long long>(100000 + rng.below(800000));
    p["chunked"] = rng.chance(0.3);
    gen_sched(rng, p, 2000, false);
    return p;
}

void run(const Json& plan)
{
    sim::Recorder& r = sim::rec();
    const int port = 9080;
    httpw::World w;
    httpw::Opts o;
    o.workers = std::max(1, std::min(2, static_cast<int>(plan.num("workers", 1))));
    o.port = port;
    w.start(o);
    using actors::Step;
    const i64 tmo_ms = std::max<i64>(10, std::min<i64>(plan.num("tmo_ms", 100), 2000));
    const u64 tag = static_cast<u64>(plan.num("tag", 123456));
    std::string body = actors::pattern(tag, static_cast<size_t>(std::max<i64>(1, std::min<i64>(plan.num("body_len", 100), 3000))));
    std::string next;
    if (plan.flag("chunked")) {
        std::vector<std::string> chunks;
        for (size_t off = 0; off < body.size(); off += 37) chunks.push_back(body.substr(off, 37));
        next = "POST /echo/" + std::to_string(tag) + " HTTP/1.1\r\nHost: sim\r\nConnection: keep-alive\r\nTransfer-Encoding: chunked\r\n\r\n" + actors::chunked(chunks);
    } else
        next = actors::http_request("POST", "/echo/" + std::to_string(tag), { { "Host", "sim" }, { "Connection", "keep-alive" } }, body);
    size_t c1 = std::max<size_t>(1, std::min<size_t>(next.size() - 1, next.size() * static_cast<size_t>(std::max<i64>(1, std::min<i64>(plan.num("cut_permille", 500), 999))) / 1000));
    size_t c2 = plan.num("cut2_permille", 0) > 0 ? c1 + (next.size() - c1) * static_cast<size_t>(std::min<i64>(plan.num("cut2_permille", 0), 999)) / 1000 : 0;
    if (c2 <= c1 || c2 >= next.size()) c2 = 0;
    const i64 first_at = std::max<i64>(100, std::min<i64>(plan.num("first_part_at_us", 1000), tmo_ms * 1000 - 50)) * 1000;
    const i64 gap = tmo_ms * 1000000LL - first_at + std::max<i64>(1000, plan.num("rest_after_timer_us", 10000)) * 1000; // spans the firing of the timer

    auto script = [&](bool with_parked) {
        std::vector<Step> st { httpw::step(Step::Connect) };
        if (with_parked) st.push_back(httpw::send_step(actors::http_request("GET", "/tmo/" + std::to_string(tmo_ms) + "/" + std::to_string(tag + 1), { { "Host", "sim" }, { "Connection", "keep-alive" } }, "")));
        st.push_back(httpw::step(Step::Pause, first_at));
        st.push_back(httpw::send_step(next.substr(0, c1)));
        st.push_back(httpw::step(Step::Pause, gap));
        if (c2) {
            st.push_back(httpw::send_step(next.substr(c1, c2 - c1)));
            st.push_back(httpw::step(Step::Pause, 3 * 1000000LL));
            st.push_back(httpw::send_step(next.substr(c2)));
        } else
            st.push_back(httpw::send_step(next.substr(c1)));
        st.push_back(httpw::step(Step::Await, 5000LL * 1000000LL, with_parked ? 2 : 1));
        st.push_back(httpw::step(Step::Close));
        return st;
    };
    auto k = std::make_shared<actors::Client>(0, port, script(true));
    auto f = std::make_shared<actors::Client>(1, port, script(false));
    k->start(0);
    f->start(0);
    const std::function<bool()> done = [&] { return k->finished() && f->finished(); };
    scen::wait_for(done, 30LL * 1000000000LL, "driver.wait-clients");

    std::string want = httpw::SimHandler::echo_body("POST", "/echo/" + std::to_string(tag), "", body);
    auto describe = [](const std::shared_ptr<actors::Client>& c, size_t i) {
        if (c->reader.broken) return std::string("malformed (") + c->reader.broken_why + ")";
        if (i >= c->responses()) return std::string("no response");
        return std::to_string(c->reader.done[i].status) + " with a body of " + std::to_string(c->reader.done[i].body.size()) + " bytes";
    };
    bool fresh_ok = !f->reader.broken && f->responses() == 1 && f->reader.done[0].status == 200 && f->reader.done[0].body == want;
    r.probe(fresh_ok ? "fresh-connection-served" : "fresh-connection-not-served");
    if (fresh_ok) {
        // the keep-alive connection: the 408 of the parked request's time-out, and the POST answered as on the fresh connection
        const actors::HttpMsg* post = nullptr;
        int n408 = 0;
        if (!k->reader.broken)
            for (auto& m : k->reader.done) {
                if (m.status == 408) n408++;
                else post = &m;
            }
        if (n408 == 1) r.probe("parked-request-timed-out");
        if (!post || post->status != 200 || post->body != want)
            r.violation("C04.timeout:outcome-differs-after-response-time-out", "a request whose segments arrived around the firing of an earlier request's response time-out was answered " + (post ? std::to_string(post->status) + " with a body of " + std::to_string(post->body.size()) + " bytes" : describe(k, 1)) + " on the keep-alive connection and 200 with " + std::to_string(want.size()) + " bytes on a fresh connection");
    }
    for (auto& c : { k, f })
        if (c->sock && !c->st.closed_by_us) c->sock->close();
    sim::sleep_ns(5 * 1000000);
    w.stop();
}

Scenario sc { "c04_timeout", "C04", "a request that arrives in segments around the firing of an earlier request's response time-out, keep-alive vs fresh connection", gen, run };
Registrar reg(&sc);

} // namespace
