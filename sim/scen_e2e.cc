// e2e — the real HTTP client against the real HTTP endpoint, both on the simulated kernel in one
// process (serves C15 and C09; nothing in it is a scripted peer).
//
// Http::Endpoint (1..3 workers, the recording handler of httpworld.h: echo / size / async replies from
// an application thread / chunked streams / files) and Http::Experimental::Client (1..2 reactor threads,
// 1..4 connections per host), 1..3 issuing threads x 1..10 requests with unique tags (GET/POST/PUT/DELETE,
// query, bodies). The direction server -> client has drawn socket buffers, segment sizes and latencies
// (so the server meets short writes and would-block), short writes / short reads / EINTR are injected;
// optionally the endpoint is shut down at a drawn instant in the middle of the load.
// Oracles: every promise settled at most once; a fulfilled promise carries status 200 and exactly the
// body that is a function of its own request; the handler saw every request at most once and exactly as
// the application built it; a request whose response the server has handed to the socket completely on a
// connection that stays up is fulfilled (bounded liveness); the client's sockets open at one time never
// exceed the limit; shutdown() returns and the endpoint's threads terminate; ThreadSanitizer: no report.
#include <pistache/client.h>
#include <pistache/endpoint.h>
#include <pistache/http.h>

#include <deque>
#include <mutex>
#include <thread>

#include "actors.h"
#include "httpworld.h"
#include "scenario.h"

using namespace scen;
using namespace Pistache;
using sim::i64;
using sim::u64;

namespace {

Json gen(sim::Rng& rng, int tier)
{
    Json p = Json::object();
    p["workers"] = static_cast<int>(rng.range(1, 3));
    p["client_threads"] = static_cast<int>(rng.range(1, 2));
    p["max_conn"] = static_cast<int>(rng.range(1, 4));
    p["app_delay_us"] = static_cast<int>(rng.below(2000));
    int issuers = static_cast<int>(rng.range(1, 3));
    int total = static_cast<int>(rng.range(1, tier ? 16 : 10));
    Json ji = Json::array();
    for (int i = 0; i < issuers; ++i) ji.push(Json::array());
    u64 tag = 100000 + rng.below(800000);
    static const long sizes[] = { 0, 1, 100, 511, 512, 513, 4096, 5000, 20000, 70000 };
    for (int k = 0; k < total; ++k) {
        Json q = Json::object();
        q["tag"] = static_cast<long long>(tag += 10);
        int kind = static_cast<int>(rng.below(12));
        q["kind"] = kind < 5 ? "echo" : kind < 7 ? "size" : kind < 9 ? "async" : kind < 10 ? "file" : "stream";
        int m = static_cast<int>(rng.below(6));
        q["method"] = m < 3 ? "GET" : m < 4 ? "POST" : m < 5 ? "PUT" : "DELETE";
        q["size"] = sizes[rng.below(sizeof sizes / sizeof sizes[0])];
        q["chunks"] = static_cast<int>(rng.range(1, 4));
        q["body_len"] = rng.chance(0.5) ? 0 : static_cast<int>(rng.below(3000));
        q["query"] = rng.chance(0.5);
        q["issue_delay_us"] = static_cast<int>(rng.below(rng.chance(0.5) ? 100 : 8000));
        ji.a[rng.below(static_cast<u64>(issuers))].push(q);
    }
    p["issuers"] = ji;
    if (rng.chance(0.4)) {
        Json ch = Json::array();
        for (int i = 0; i < issuers; ++i) ch.push(rng.chance(0.7));
        p["chained"] = ch;
    }
    // server -> client direction: drawn per run (every connection of the run gets it), client -> server stays roomy
    static const long bufs[] = { 64, 512, 1024, 4096, 4096, 16384, 65536, 65536 };
    long snd = bufs[rng.below(8)], rcv = bufs[rng.below(8)];
    p["sndbuf"] = snd;
    p["rcvbuf"] = rcv;
    p["mss"] = std::min<long>(rcv, static_cast<long>(16 + rng.below(1500)));
    p["latency_us"] = static_cast<int>(5 + rng.below(400));
    Json f = Json::object();
    if (rng.chance(0.5)) f["short_write_permille"] = static_cast<int>(rng.below(300));
    if (rng.chance(0.4)) f["short_read_permille"] = static_cast<int>(rng.below(300));
    if (rng.chance(0.3)) f["eintr_permille"] = static_cast<int>(rng.below(80));
    p["faults"] = f;
    // shutdown of the endpoint in the middle of the load (every request then carries a time-out)
    p["shutdown_at_us"] = rng.chance(0.2) ? static_cast<int>(rng.below(6000)) : -1;
    // an idle gap: the endpoint's read time-outs are a second or two, and some requests are issued only after the pooled
    // connections have been idle for longer than that - the server has answered the silence with 408 and closed them (what
    // Pistache's own endpoint, and many proxies, do to idle keep-alive connections); the requests that follow must be
    // fulfilled with their own responses all the same
    if (p.num("shutdown_at_us", -1) < 0 && rng.chance(0.12)) {
        int T = static_cast<int>(1000 + rng.below(1500));
        p["server_timeout_ms"] = T;
        for (auto& iss : p["issuers"].a)
            for (size_t k = 1; k < iss.a.size(); ++k)
                if (rng.chance(0.5)) iss.a[k]["issue_delay_us"] = (T + 700 + static_cast<int>(rng.below(1500))) * 1000;
    }
    // two endpoints ("hosts") behind the one client in part of the runs; when one of them is shut down in the middle of the
    // load the other one goes on, and every request addressed to it must still be fulfilled
    if (rng.chance(0.3)) {
        p["hosts"] = 2;
        for (auto& iss : p["issuers"].a)
            for (auto& q : iss.a) q["host"] = static_cast<int>(rng.below(2));
        p["shutdown_both"] = rng.chance(0.3);
    }
    gen_sched(rng, p, 8000, true);
    return p;
}

struct ReqState {
    u64 tag = 0;
    std::string kind, method, url, query_val, body, expect_resource, expect_body;
    bool chunked = false;
    i64 timeout_ms = 0;
    i64 issued_at = -1, settled_at = -1;
    int fulfilled = 0, rejected = 0, status = 0;
    std::string got, error;
    int host = 0;
    bool judged_live = true; // its host stays up for the whole run
};

void run(const Json& plan)
{
    sim::Recorder& r = sim::rec();
    const int port = 9080;
    const i64 shutdown_at = plan.num("shutdown_at_us", -1);
    std::string phase = "serving";
    sim::set_fatal_classifier([&](const std::string& verdict) -> std::pair<std::string, std::string> {
        if (phase == "shutdown") return { "C09.shutdown:does-not-terminate", "after shutdown() the endpoint's threads did not all terminate (" + verdict + ")" };
        return { "", "" };
    });

    httpw::World w, w2;
    const bool two_hosts = plan.num("hosts", 1) >= 2;
    const bool shutdown_both = !two_hosts || plan.flag("shutdown_both");
    const Json& ji = plan.get("issuers");
    std::deque<ReqState> reqs;
    std::vector<std::vector<ReqState*>> per_issuer(ji.size());
    std::map<u64, ReqState*> by_tag;
    for (size_t i = 0; i < ji.size(); ++i)
        for (size_t k = 0; k < ji.at(i).size(); ++k) {
            const Json& q = ji.at(i).at(k);
            u64 tag = static_cast<u64>(q.num("tag"));
            if (by_tag.count(tag)) continue;
            reqs.emplace_back();
            ReqState& rs = reqs.back();
            rs.tag = tag;
            rs.kind = q.str("kind", "echo");
            rs.method = q.str("method", "GET");
            size_t size = static_cast<size_t>(std::max<i64>(0, std::min<i64>(q.num("size", 100), 200000)));
            // a response has to fit through the drawn pipe within the step budget
            size = std::min<size_t>(size, std::max<size_t>(4096, static_cast<size_t>(std::max<i64>(16, plan.num("sndbuf", 65536))) * 64));
            std::string t = std::to_string(tag);
            if (rs.method != "GET" && rs.method != "DELETE") rs.body = actors::pattern(tag + 1, static_cast<size_t>(std::max<i64>(0, std::min<i64>(q.num("body_len", 0), 3000))));
            if (q.flag("query")) rs.query_val = "v" + t;
            if (rs.kind == "file") {
                size = std::max<size_t>(1, size);
                (q.num("host", 0) >= 1 && two_hosts ? w2 : w).make_file(t, size);
                rs.expect_resource = "/file/" + t;
                rs.expect_body = actors::pattern(tag, size);
            } else if (rs.kind == "stream") {
                int ch = std::max(1, std::min(6, static_cast<int>(q.num("chunks", 2))));
                size_t n = std::max<size_t>(1, std::min<size_t>(size, 20000));
                rs.expect_resource = "/stream/" + std::to_string(ch) + "/" + std::to_string(n) + "/" + t;
                for (int x = 0; x < ch; ++x) rs.expect_body += actors::pattern(tag + static_cast<u64>(x), n);
                rs.chunked = true;
            } else if (rs.kind == "size" || rs.kind == "async") {
                rs.expect_resource = "/" + rs.kind + "/" + std::to_string(size) + "/" + t;
                rs.expect_body = actors::pattern(tag, size);
            } else {
                rs.kind = "echo";
                rs.expect_resource = "/echo/" + t;
                rs.expect_body = httpw::SimHandler::echo_body(rs.method, rs.expect_resource, rs.query_val.empty() ? "" : "?k=" + rs.query_val, rs.body);
            }
            rs.host = two_hosts && q.num("host", 0) >= 1 ? 1 : 0;
            rs.url = "http://127.0.0.1:" + std::to_string(port + rs.host) + rs.expect_resource;
            rs.judged_live = shutdown_at < 0 || (rs.host == 1 && !shutdown_both);
            rs.timeout_ms = rs.judged_live ? 0 : 1500;
            by_tag[tag] = &rs;
            per_issuer[i].push_back(&rs);
        }

    const Json& jf = plan.get("faults");
    simk::Faults& F = simk::faults();
    F.short_write_p = static_cast<double>(jf.num("short_write_permille", 0)) / 1000.0;
    F.short_read_p = static_cast<double>(jf.num("short_read_permille", 0)) / 1000.0;
    F.epoll_eintr_p = static_cast<double>(jf.num("eintr_permille", 0)) / 1000.0;
    F.server_side.sndbuf = static_cast<size_t>(std::max<i64>(16, plan.num("sndbuf", 65536)));
    F.server_side.rcvbuf = static_cast<size_t>(std::max<i64>(16, plan.num("rcvbuf", 65536)));
    F.server_side.mss = static_cast<size_t>(std::max<i64>(1, std::min<i64>(plan.num("mss", 1460), static_cast<i64>(F.server_side.rcvbuf))));
    F.server_side.latency_ns = F.client_side.latency_ns = std::max<i64>(1, plan.num("latency_us", 50)) * 1000;

    httpw::Opts o;
    o.workers = std::max(1, std::min(3, static_cast<int>(plan.num("workers", 1))));
    o.port = port;
    o.max_req = 16384;
    o.app_delay_ns = plan.num("app_delay_us", 0) * 1000;
    if (plan.num("server_timeout_ms", 0) > 0) {
        o.header_timeout_ms = o.body_timeout_ms = std::max<i64>(500, std::min<i64>(plan.num("server_timeout_ms", 0), 10000));
        r.probe("idle-gap-beyond-the-servers-time-out");
    }
    w.start(o);
    if (two_hosts) {
        httpw::Opts o2 = o;
        o2.port = port + 1;
        o2.workers = 1 + (o.workers % 2);
        w2.start(o2);
        r.probe("two-hosts");
    }

    const int max_conn = std::max(1, std::min(8, static_cast<int>(plan.num("max_conn", 1))));
    auto client = std::make_unique<Http::Experimental::Client>();
    client->init(Http::Experimental::Client::options().threads(std::max(1, std::min(3, static_cast<int>(plan.num("client_threads", 1))))).maxConnectionsPerHost(max_conn));

    std::mutex rec_mtx;
    std::vector<std::thread> issuers;
    for (size_t i = 0; i < per_issuer.size(); ++i) {
        issuers.emplace_back([&, i] {
            sim::set_self_name(("issuer" + std::to_string(i)).c_str());
            const bool chained = plan.get("chained").at(i).as_int() != 0;
            ReqState* prev = nullptr;
            for (ReqState* rs : per_issuer[i]) {
                i64 d = 0;
                for (size_t k = 0; k < ji.at(i).size(); ++k)
                    if (static_cast<u64>(ji.at(i).at(k).num("tag")) == rs->tag) d = ji.at(i).at(k).num("issue_delay_us", 0) * 1000;
                if (chained && prev) {
                    const ReqState* pv = prev;
                    const std::function<bool()> settled = [pv] { return pv->fulfilled + pv->rejected > 0; };
                    sim::IgnoreScope ig;
                    sim::block_until(settled, sim::now_ns() + 10LL * 1000000000LL, "issuer.wait-previous");
                } else if (d > 0)
                    sim::sleep_ns(d);
                prev = rs;
                auto rb = rs->method == "POST" ? client->post(rs->url) : rs->method == "PUT" ? client->put(rs->url) : rs->method == "DELETE" ? client->del(rs->url) : client->get(rs->url);
                if (!rs->query_val.empty()) {
                    Http::Uri::Query qy;
                    qy.add("k", rs->query_val);
                    rb.params(qy);
                }
                if (!rs->body.empty()) rb.body(rs->body);
                if (rs->timeout_ms > 0) rb.timeout(std::chrono::milliseconds(rs->timeout_ms));
                {
                    sim::IgnoreScope ig;
                    rs->issued_at = sim::now_ns();
                }
                try {
                    rb.send().then(
                        [rs, &rec_mtx](Http::Response resp) {
                            std::lock_guard<std::mutex> g(rec_mtx);
                            rs->fulfilled++;
                            rs->status = static_cast<int>(resp.code());
                            rs->got = resp.body();
                            rs->settled_at = sim::now_ns();
                        },
                        [rs, &rec_mtx](std::exception_ptr e) {
                            std::string what = "?";
                            try {
                                std::rethrow_exception(e);
                            } catch (const std::exception& ex) {
                                what = ex.what();
                            } catch (...) {
                            }
                            std::lock_guard<std::mutex> g(rec_mtx);
                            rs->rejected++;
                            rs->error = what;
                            rs->settled_at = sim::now_ns();
                        });
                } catch (const std::exception& e) {
                    std::lock_guard<std::mutex> g(rec_mtx);
                    rs->rejected++;
                    rs->error = std::string("send() threw: ") + e.what();
                    rs->settled_at = sim::now_ns();
                }
            }
        });
    }

    bool interrupted = false;
    if (shutdown_at >= 0) {
        sim::sleep_ns(shutdown_at * 1000);
        {
            sim::IgnoreScope ig;
            for (auto& rs : reqs)
                if (rs.fulfilled + rs.rejected == 0) interrupted = true;
        }
        r.probe(interrupted ? "shutdown-with-load" : "shutdown-idle");
        phase = "shutdown";
        int before = sim::live_thread_count();
        w.stop();
        if (two_hosts && shutdown_both) w2.stop();
        if (two_hosts && !shutdown_both) r.probe("one-host-shut-down-the-other-goes-on");
        phase = "after";
        // the issuers, the client's reactor threads and this driver remain
        r.stats["threads_before_shutdown"] = before;
    }
    for (auto& t : issuers) t.join();
    const std::function<bool()> all_settled = [&] {
        for (auto& rs : reqs)
            if (rs.fulfilled + rs.rejected == 0) return false;
        return true;
    };
    // liveness bound: generous (a 64-byte pipe moves 200 KB in a few simulated seconds)
    scen::wait_for(all_settled, shutdown_at >= 0 && shutdown_both ? 6LL * 1000000000LL : 120LL * 1000000000LL, "driver.wait-settled");
    sim::sleep_ns(20 * 1000000LL);

    {
        sim::IgnoreScope oracle_scope;
        // what the handler saw
        std::map<u64, int> seen;
        std::vector<std::pair<const httpw::ReqRec*, int>> all_seen;
        for (auto& rr : w.requests) all_seen.emplace_back(&rr, 0);
        for (auto& rr : w2.requests) all_seen.emplace_back(&rr, 1);
        for (auto& pr : all_seen) {
            const httpw::ReqRec& rr = *pr.first;
            u64 tag = 0;
            size_t sl = rr.resource.rfind('/');
            if (sl != std::string::npos) tag = strtoull(rr.resource.c_str() + sl + 1, nullptr, 10);
            auto it = by_tag.find(tag);
            if (it == by_tag.end()) {
                r.violation("C15.wire:unexpected-request", "the handler received a request the application never issued: " + rr.method + " " + rr.resource);
                continue;
            }
            ReqState& rs = *it->second;
            std::string who = "request tag " + std::to_string(rs.tag) + " (" + rs.method + " " + rs.kind + ")";
            if (pr.second != rs.host) r.violation("C15.wire:request-sent-to-another-host", who + " was addressed to host " + std::to_string(rs.host) + " and reached host " + std::to_string(pr.second));
            if (++seen[tag] > 1) r.violation("C15.wire:request-delivered-twice", who + " reached the handler " + std::to_string(seen[tag]) + " times");
            std::string q = rs.query_val.empty() ? "" : "?k=" + rs.query_val;
            if (rr.method != rs.method || rr.resource != rs.expect_resource || rr.query != q || rr.body != rs.body)
                r.violation("C15.wire:request-not-as-built", who + " reached the handler as " + rr.method + " " + rr.resource + rr.query + " with a body of " + std::to_string(rr.body.size()) + " bytes (built with " + std::to_string(rs.body.size()) + ")");
        }
        for (auto& rs : reqs) {
            std::string who = "request tag " + std::to_string(rs.tag) + " (" + rs.method + " " + rs.kind + ")";
            r.probe("kind-" + rs.kind);
            if (rs.fulfilled + rs.rejected > 1) r.violation("C15.settle:more-than-once", who + " was settled " + std::to_string(rs.fulfilled + rs.rejected) + " times");
            if (rs.fulfilled) {
                if (rs.status != 200) r.violation("C09.response:wrong-status", who + " was fulfilled with status " + std::to_string(rs.status));
                else if (rs.got != rs.expect_body) {
                    std::string cause = "corrupted";
                    for (auto& o : reqs)
                        if (&o != &rs && rs.got == o.expect_body) cause = "response-to-another-request";
                    size_t d = 0;
                    while (d < rs.got.size() && d < rs.expect_body.size() && rs.got[d] == rs.expect_body[d]) d++;
                    r.violation("C15.own-response:" + cause + ":" + rs.kind, who + " was fulfilled with a body of " + std::to_string(rs.got.size()) + " bytes (expected " + std::to_string(rs.expect_body.size()) + "), first difference at offset " + std::to_string(d));
                }
                if (!seen.count(rs.tag)) r.violation("C15.own-response:fulfilled-without-reaching-the-server", who + " was fulfilled although the handler never saw it");
            }
            if (rs.judged_live) {
                // nothing disturbs the exchange: the server answers every request it sees, the connection stays up
                if (!rs.fulfilled && seen.count(rs.tag))
                    r.violation("C15.liveness:answered-request-not-fulfilled:" + rs.kind, who + " reached the handler, which answered it, but its promise was " + (rs.rejected ? "rejected (" + rs.error + ")" : "never settled"));
                else if (!rs.fulfilled && !rs.rejected)
                    // more requests than connections: the request waited in the client's overflow queue and was never taken
                    // out of it although every other request had long been answered and its connection was free again
                    r.violation("C15.liveness:queued-request-never-sent", who + " was never sent and never settled although the server answered every request it received and the client's connections were idle for " + std::to_string((sim::now_ns() - rs.issued_at) / 1000000) + " ms");
                else if (rs.rejected)
                    r.probe("request-rejected-before-reaching-the-server");
            } else {
                if (rs.fulfilled + rs.rejected == 0 && rs.issued_at >= 0) r.probe("unsettled-after-server-shutdown");
            }
        }
        // send promises of the handler: at most once; fulfilled when the client got the response
        std::vector<const httpw::SendRec*> all_sends;
        for (auto& sr : w.sends) all_sends.push_back(&sr);
        for (auto& sr : w2.sends) all_sends.push_back(&sr);
        for (auto* srp : all_sends) {
            const httpw::SendRec& sr = *srp;
            if (sr.fulfilled + sr.rejected > 1) r.violation("C06.promise:settled-twice", "the send promise of " + sr.what + " was settled " + std::to_string(sr.fulfilled + sr.rejected) + " times");
        }
        // the client's sockets open at one time (accepted sockets of the server are the other fd-owning sockets: they are
        // created by accept, the client's by connect; tell them apart by who created the connection)
        for (int hport = port; hport <= port + (two_hosts ? 1 : 0); ++hport) {
            std::vector<std::pair<i64, int>> ev;
            for (auto& st : simk::sock_stats()) {
                if (st.accepted || st.port != hport) continue;
                ev.emplace_back(st.opened_at, +1);
                if (st.closed_at >= 0) ev.emplace_back(st.closed_at, -1);
            }
            std::sort(ev.begin(), ev.end(), [](const std::pair<i64, int>& a, const std::pair<i64, int>& b) { return a.first != b.first ? a.first < b.first : a.second < b.second; });
            int open_now = 0, max_open = 0;
            for (auto& e : ev) {
                open_now += e.second;
                max_open = std::max(max_open, open_now);
            }
            r.stats[hport == port ? "max_client_sockets" : "max_client_sockets_host2"] = max_open;
            if (max_open > max_conn) r.violation("C15.connections:more-than-configured", "the client had " + std::to_string(max_open) + " sockets to the host at port " + std::to_string(hport) + " open at once with a limit of " + std::to_string(max_conn));
            if (max_open >= max_conn && max_conn > 1) r.probe("connection-limit-reached");
        }
        u64 eagain = 0, shortw = 0;
        for (auto& s : simk::sock_stats()) {
            eagain += s.send_eagain;
            shortw += s.send_short;
        }
        if (eagain) r.probe("server-would-block", static_cast<i64>(eagain));
        if (shortw) r.probe("short-write", static_cast<i64>(shortw));
        for (auto& a : simk::anomalies())
            if (a.kind == "send.eagain-spin" || a.kind == "epoll.idle-spin") r.violation("C07.busy-wait:spin", a.detail);
    }
    // Client::shutdown() closes the pool's descriptors without waiting for the reactor threads; a thread still inside a
    // handler would use a closed descriptor (outside C15; see DESIGN 9). The application waits until the client is quiet.
    sim::quiesce(2LL * 1000000000LL);
    client->shutdown();
    client.reset();
    if (shutdown_at < 0 || (two_hosts && !shutdown_both)) {
        phase = "shutdown";
        if (shutdown_at < 0) w.stop();
        if (two_hosts) w2.stop();
        phase = "after";
    }
    int after = sim::live_thread_count();
    if (after != 1) r.violation("C09.shutdown:threads-left", std::to_string(after - 1) + " thread(s) still alive after client and endpoint were shut down and destroyed");
}

Scenario sc { "e2e_client_server", "C15", "real HTTP client against the real endpoint on the simulated kernel (both ends real code)", gen, run };
Registrar reg(&sc);

} // namespace
