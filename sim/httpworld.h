// A real Http::Endpoint on the simulated kernel with a recording handler. Shared by the
// server-side scenarios (C01, C03, C04, C08, C09, C14).
//
// Resources understood by the handler:
//   /echo/<tag>              200, body = "<method> <resource> q=<query> b=<body>" (computed from the request alone)
//   /size/<n>/<tag>          200, body = pattern(tag, n)
//   /async/<n>/<tag>         like /size, but the ResponseWriter is handed to an application thread which replies
//   /stream/<k>/<n>/<tag>    chunked response: k chunks of n bytes, flushed one by one
//   /astream/<k>/<n>/<tag>   like /stream, but the stream is handed to an application thread, which writes and flushes the chunks
//   /hints/<k>/<n>/<tag>     "103 Early Hints" written through Peer::send; the final response (k chunks of n bytes, each flushed) is
//                            streamed from the continuation of that write, i.e. from inside the transport's write path
//   /file/<tag>              serveFile of a scratch file (content pattern(tag, size))
//   /tmo/<ms>/<tag>          arms the response time-out and never replies (the framework answers 408)
//   /tmoreply/<ms>/<tag>     arms the response time-out, then replies at once (the timer must be disarmed and released)
//   /tmoasync/<ms>/<tag>     the ResponseWriter is handed to an application thread, which arms the response time-out there and never replies
//   /tmoreplyasync/<ms>/<n>/<tag>  ... which arms the response time-out there and replies at once (200, pattern(tag, n)): armed and disarmed from that thread
//   /astreamp/<k>/<n>/<tag>  like /astream, but the handler writes the first chunk (unflushed) before it moves the stream to the application thread
//   /busy/<us>/<tag>         a slow handler: computes for <us> microseconds on the worker thread, then 200 "busy <tag>"
//   /notify/<tag>            long-poll style: completes the oldest parked /tmo request from the worker thread (200 "notified"), then 200 "notify <n>"
//   /never/<tag>             keeps the ResponseWriter and never replies
#pragma once
#include <pistache/endpoint.h>
#include <pistache/http.h>
#include <pistache/peer.h>

#include <deque>
#include <set>
#include <mutex>
#include <thread>

#include <sys/stat.h>
#include <unistd.h>

#include "actors.h"
#include "msggen.h"
#include "scenario.h"

namespace httpw {

using namespace Pistache;
using sim::i64;
using sim::u64;

struct ReqRec {
    int fd = -1;
    int conn_ord = -1;
    int conn_id = -1;
    std::string snap; // canonical form of everything the handler can see of the request
    std::string method, resource, query, body, version;
    std::vector<std::pair<std::string, std::string>> headers; // raw headers, sorted by lower-cased name
    std::vector<std::pair<std::string, std::string>> cookies;
    i64 at = 0;
    int thread = -1;
    bool after_disconnect = false;
};
struct SendRec {
    int fd = -1;
    std::string what;
    int fulfilled = 0, rejected = 0;
    long value = -1;
    std::string error;
};
struct DiscRec {
    int fd = -1;
    int conn_ord = -1;
    i64 at = 0;
    int thread = -1;
};

struct Opts {
    int workers = 1;
    size_t max_req = 4096;
    size_t max_resp = 1u << 30;
    i64 header_timeout_ms = 60000;
    i64 body_timeout_ms = 60000;
    int port = 9080;
    i64 app_delay_ns = 0;
    i64 app_gather_ns = 0; // > 0: the application thread lets jobs pile up for this long, then handles all of them back to back
};

struct World;

struct Job {
    std::unique_ptr<Http::ResponseWriter> writer;
    std::string body;
    SendRec* rec = nullptr;
    long tmo_ms = 0; // > 0: the application thread arms the response time-out and keeps the writer (never replies)
    std::unique_ptr<Http::ResponseStream> stream; // set: the application thread writes and flushes the chunks of a streamed response
    int chunks = 0;
    size_t chunk_size = 0;
    u64 tag = 0;
    bool reply_after_arm = false; // with tmo_ms: the application thread arms the time-out and replies at once (the timer is disarmed before the worker may have taken it from its queue)
    int first_chunk = 0;          // stream: chunks the handler has already written (unflushed) before it handed the stream over
};

struct World {
    Opts opts;
    std::deque<ReqRec> requests;
    std::deque<SendRec> sends;
    std::deque<DiscRec> disconnects;
    std::map<int, int> disconnected_fds; // fd -> count since the fd was (re)accepted
    std::map<std::string, size_t> file_sizes;
    std::vector<std::weak_ptr<Tcp::Peer>> peers; // every peer a request was seen on
    std::vector<std::unique_ptr<Http::ResponseWriter>> held; // writers of /never and /tmo requests
    std::map<std::string, Http::ResponseWriter*> parked; // /tmo writers (by resource) that /notify may still complete (guarded by held_mtx)
    std::mutex held_mtx;
    int timeouts_fired = 0;
    std::string scratch;
    std::vector<std::string> files;

    std::mutex jobs_mtx;
    std::deque<Job> jobs;
    bool stop_app = false;
    std::thread app;
    std::unique_ptr<Http::Endpoint> ep;
    std::function<bool(const Http::Request&, Http::ResponseWriter&)> custom; // optional scenario-specific routes

    std::string file_path(const std::string& tag) const { return scratch + "/f" + tag; }
    void make_file(const std::string& tag, size_t size)
    {
        if (scratch.empty()) {
            scratch = scen::scratch_root() + "/" + std::to_string(getpid());
            mkdir(scratch.c_str(), 0755);
        }
        std::string path = file_path(tag);
        FILE* f = fopen(path.c_str(), "w");
        if (!f) return;
        std::string data = actors::pattern(strtoull(tag.c_str(), nullptr, 10), size);
        fwrite(data.data(), 1, data.size(), f);
        fclose(f);
        files.push_back(path);
        file_sizes[tag] = size;
    }
    void cleanup_files()
    {
        for (auto& f : files) unlink(f.c_str());
        files.clear();
        if (!scratch.empty()) rmdir(scratch.c_str());
    }

    SendRec* new_send(int fd, const std::string& what)
    {
        sim::IgnoreScope ig;
        sends.emplace_back();
        sends.back().fd = fd;
        sends.back().what = what;
        return &sends.back();
    }
    static void track(Async::Promise<ssize_t> p, SendRec* rec)
    {
        p.then([rec](ssize_t n) { sim::IgnoreScope ig; rec->fulfilled++; rec->value = static_cast<long>(n); sim::logf("send promise of %s fulfilled with %ld", rec->what.c_str(), static_cast<long>(n)); },
               [rec](std::exception_ptr e) {
                   std::string what = "?";
                   try {
                       std::rethrow_exception(e);
                   } catch (const std::exception& ex) {
                       what = ex.what();
                   } catch (...) {
                   }
                   sim::IgnoreScope ig;
                   rec->rejected++;
                   rec->error = what;
                   sim::logf("send promise of %s rejected: %s", rec->what.c_str(), what.c_str());
               });
    }

    void start(const Opts& o);
    void stop();
};

inline std::vector<std::string> split_path(const std::string& res)
{
    std::vector<std::string> parts;
    size_t p = 0;
    while (p < res.size()) {
        size_t e = res.find('/', p);
        if (e == std::string::npos) e = res.size();
        if (e > p) parts.push_back(res.substr(p, e - p));
        p = e + 1;
    }
    return parts;
}

class SimHandler : public Http::Handler {
public:
    HTTP_PROTOTYPE(SimHandler)
    explicit SimHandler(World* w) : w_(w) { }
    SimHandler(const SimHandler& o) : Http::Handler(o), w_(o.w_) { }

    static std::string echo_body(const std::string& method, const std::string& resource, const std::string& query, const std::string& body)
    {
        return method + " " + resource + " q=" + query + " b=" + body;
    }

    void onRequest(const Http::Request& req, Http::ResponseWriter response) override
    {
        int fd = -1;
        try {
            fd = response.peer()->fd();
        } catch (...) {
        }
        std::ostringstream ms;
        ms << req.method();
        std::string method = ms.str();
        {
            sim::IgnoreScope ig;
            w_->requests.emplace_back();
            ReqRec& rr = w_->requests.back();
            rr.fd = fd;
            for (auto& s : simk::sock_stats())
                if (s.fd == fd && !s.closed) {
                    rr.conn_ord = s.ordinal;
                    rr.conn_id = s.conn_id;
                }
            rr.snap = msggen::snap_request(req);
            rr.method = method;
            rr.resource = req.resource();
            rr.query = req.query().as_str();
            rr.body = req.body();
            rr.version = req.version() == Http::Version::Http10 ? "1.0" : "1.1";
            for (auto& h : req.headers().rawList()) {
                std::string n = h.first;
                for (auto& c : n) c = static_cast<char>(std::tolower(static_cast<unsigned char>(c)));
                rr.headers.emplace_back(n, h.second.value());
            }
            std::sort(rr.headers.begin(), rr.headers.end());
            for (const auto& c : req.cookies()) rr.cookies.emplace_back(c.name, c.value);
            std::sort(rr.cookies.begin(), rr.cookies.end());
            rr.at = sim::now_ns();
            rr.thread = sim::self_id();
            rr.after_disconnect = false;
            for (auto& d : w_->disconnects)
                if (d.conn_ord == rr.conn_ord && rr.conn_ord >= 0) rr.after_disconnect = true;
            try {
                w_->peers.push_back(response.peer());
            } catch (...) {
            }
        }
        if (w_->custom && w_->custom(req, response)) return;
        auto parts = split_path(req.resource());
        const std::string kind = parts.empty() ? "" : parts[0];
        if (kind == "size" && parts.size() >= 3) {
            std::string body = actors::pattern(strtoull(parts[2].c_str(), nullptr, 10), static_cast<size_t>(atol(parts[1].c_str())));
            World::track(response.send(Http::Code::Ok, body), w_->new_send(fd, req.resource()));
        } else if (kind == "async" && parts.size() >= 3) {
            Job j;
            j.writer = std::make_unique<Http::ResponseWriter>(std::move(response));
            j.body = actors::pattern(strtoull(parts[2].c_str(), nullptr, 10), static_cast<size_t>(atol(parts[1].c_str())));
            j.rec = w_->new_send(fd, req.resource());
            std::lock_guard<std::mutex> g(w_->jobs_mtx);
            w_->jobs.push_back(std::move(j));
        } else if (kind == "tmoasync" && parts.size() >= 3) {
            Job j;
            j.writer = std::make_unique<Http::ResponseWriter>(std::move(response));
            j.tmo_ms = std::max(1L, atol(parts[1].c_str()));
            std::lock_guard<std::mutex> g(w_->jobs_mtx);
            w_->jobs.push_back(std::move(j));
        } else if (kind == "tmoreplyasync" && parts.size() >= 4) {
            Job j;
            j.writer = std::make_unique<Http::ResponseWriter>(std::move(response));
            j.tmo_ms = std::max(1L, atol(parts[1].c_str()));
            j.body = actors::pattern(strtoull(parts[3].c_str(), nullptr, 10), static_cast<size_t>(atol(parts[2].c_str())));
            j.rec = w_->new_send(fd, req.resource());
            j.reply_after_arm = true;
            std::lock_guard<std::mutex> g(w_->jobs_mtx);
            w_->jobs.push_back(std::move(j));
        } else if (kind == "astreamp" && parts.size() >= 4) {
            // like /astream, but the handler writes the first chunk into the stream (no flush) before it hands the stream -
            // by move, with pending data in a buffer that has grown - to the application thread
            Job j;
            j.chunks = atoi(parts[1].c_str());
            j.chunk_size = static_cast<size_t>(atol(parts[2].c_str()));
            j.tag = strtoull(parts[3].c_str(), nullptr, 10);
            auto stream = response.stream(Http::Code::Ok);
            std::string chunk = actors::pattern(j.tag, j.chunk_size);
            stream.write(chunk.data(), static_cast<std::streamsize>(chunk.size()));
            j.first_chunk = 1;
            j.stream = std::make_unique<Http::ResponseStream>(std::move(stream));
            std::lock_guard<std::mutex> g(w_->jobs_mtx);
            w_->jobs.push_back(std::move(j));
        } else if (kind == "astream" && parts.size() >= 4) {
            Job j;
            j.chunks = atoi(parts[1].c_str());
            j.chunk_size = static_cast<size_t>(atol(parts[2].c_str()));
            j.tag = strtoull(parts[3].c_str(), nullptr, 10);
            j.stream = std::make_unique<Http::ResponseStream>(response.stream(Http::Code::Ok));
            std::lock_guard<std::mutex> g(w_->jobs_mtx);
            w_->jobs.push_back(std::move(j));
        } else if (kind == "stream" && parts.size() >= 4) {
            int k = atoi(parts[1].c_str());
            size_t n = static_cast<size_t>(atol(parts[2].c_str()));
            u64 tag = strtoull(parts[3].c_str(), nullptr, 10);
            auto stream = response.stream(Http::Code::Ok);
            for (int i = 0; i < k; ++i) {
                std::string chunk = actors::pattern(tag + static_cast<u64>(i), n);
                stream.write(chunk.data(), static_cast<std::streamsize>(chunk.size()));
                stream.flush();
            }
            stream.ends();
        } else if (kind == "hints" && parts.size() >= 4) {
            const int k = std::max(1, std::min(16, atoi(parts[1].c_str())));
            const size_t n = static_cast<size_t>(atol(parts[2].c_str()));
            const u64 tag = strtoull(parts[3].c_str(), nullptr, 10);
            auto writer = std::make_shared<Http::ResponseWriter>(std::move(response));
            static const std::string kHints = "HTTP/1.1 103 Early Hints\r\nLink: </style.css>; rel=preload\r\n\r\n";
            auto peer = writer->peer();
            peer->send(RawBuffer(kHints, kHints.size())).then(
                [writer, k, n, tag](ssize_t) {
                    try {
                        auto stream = writer->stream(Http::Code::Ok);
                        for (int i = 0; i < k; ++i) {
                            std::string chunk = actors::pattern(tag + static_cast<u64>(i), n);
                            stream.write(chunk.data(), static_cast<std::streamsize>(chunk.size()));
                            stream.flush();
                        }
                        stream.ends();
                    } catch (const std::exception& e) {
                        sim::logf("hints: %s", e.what());
                    }
                },
                Async::IgnoreException);
        } else if (kind == "file" && parts.size() >= 2) {
            World::track(Http::serveFile(response, w_->file_path(parts[1])), w_->new_send(fd, req.resource()));
        } else if (kind == "tmo" && parts.size() >= 2) {
            // keep the writer alive first, then arm its time-out (the armed timer refers to the writer it was armed on)
            auto held = std::make_unique<Http::ResponseWriter>(std::move(response));
            held->timeoutAfter(std::chrono::milliseconds(atol(parts[1].c_str())));
            std::lock_guard<std::mutex> g(w_->held_mtx);
            w_->parked[req.resource()] = held.get();
            w_->held.push_back(std::move(held));
        } else if (kind == "tmomoved" && parts.size() >= 2) {
            // arm first, then move the writer (what a handler does that hands an armed writer to another context)
            response.timeoutAfter(std::chrono::milliseconds(atol(parts[1].c_str())));
            auto held = std::make_unique<Http::ResponseWriter>(std::move(response));
            std::lock_guard<std::mutex> g(w_->held_mtx);
            w_->held.push_back(std::move(held));
        } else if (kind == "tmoreply" && parts.size() >= 2) {
            response.timeoutAfter(std::chrono::milliseconds(atol(parts[1].c_str())));
            World::track(response.send(Http::Code::Ok, "tmoreply " + req.resource()), w_->new_send(fd, req.resource()));
        } else if (kind == "busy" && parts.size() >= 3) {
            sim::sleep_ns(std::max(0L, std::min(5000000L, atol(parts[1].c_str()))) * 1000);
            World::track(response.send(Http::Code::Ok, "busy " + parts[2]), w_->new_send(fd, req.resource()));
        } else if (kind == "notify") {
            std::unique_ptr<Http::ResponseWriter> parked;
            {
                std::lock_guard<std::mutex> g(w_->held_mtx);
                for (auto it = w_->held.begin(); it != w_->held.end() && !parked; ++it)
                    for (auto pit = w_->parked.begin(); pit != w_->parked.end(); ++pit)
                        if (*it && pit->second == it->get()) {
                            parked = std::move(*it);
                            w_->parked.erase(pit);
                            w_->held.erase(it);
                            break;
                        }
            }
            int n = 0;
            if (parked) {
                try {
                    parked->send(Http::Code::Ok, "notified");
                    n = 1;
                } catch (const std::exception& e) {
                    sim::logf("notify: send on the parked writer threw: %s", e.what());
                }
            }
            World::track(response.send(Http::Code::Ok, "notify " + std::to_string(n)), w_->new_send(fd, req.resource()));
        } else if (kind == "never") {
            auto held = std::make_unique<Http::ResponseWriter>(std::move(response));
            std::lock_guard<std::mutex> g(w_->held_mtx);
            w_->held.push_back(std::move(held));
        } else {
            World::track(response.send(Http::Code::Ok, echo_body(method, req.resource(), req.query().as_str(), req.body())), w_->new_send(fd, req.resource()));
        }
    }

    void onTimeout(const Http::Request& req, Http::ResponseWriter response) override
    {
        {
            sim::IgnoreScope ig;
            w_->timeouts_fired++;
        }
        {
            // the parked request has been answered by now; /notify must not complete it a second time
            std::lock_guard<std::mutex> g(w_->held_mtx);
            w_->parked.erase(req.resource());
        }
        response.send(Http::Code::Request_Timeout, "handler-timeout");
    }

    void onDisconnection(const std::shared_ptr<Tcp::Peer>& peer) override
    {
        sim::IgnoreScope ig;
        DiscRec d;
        d.fd = peer->fd();
        for (auto& s : simk::sock_stats())
            if (s.fd == d.fd && !s.closed) d.conn_ord = s.ordinal;
        d.at = sim::now_ns();
        d.thread = sim::self_id();
        w_->disconnects.push_back(d);
        w_->disconnected_fds[d.fd]++;
    }

private:
    World* w_;
};

inline void World::start(const Opts& o)
{
    opts = o;
    ep = std::make_unique<Http::Endpoint>(Address("127.0.0.1", Port(static_cast<uint16_t>(o.port))));
    auto eo = Http::Endpoint::options().threads(o.workers).maxRequestSize(o.max_req).maxResponseSize(o.max_resp);
    eo.headerTimeout(std::chrono::milliseconds(o.header_timeout_ms)).bodyTimeout(std::chrono::milliseconds(o.body_timeout_ms));
    ep->init(eo);
    ep->setHandler(Http::make_handler<SimHandler>(this));
    ep->serveThreaded();
    app = std::thread([this] {
        sim::set_self_name("app");
        bool gathered = false;
        for (;;) {
            const std::function<bool()> pred = [this] { return stop_app || !jobs.empty(); };
            sim::block_until(pred, -1, "app.wait");
            bool stopping;
            {
                std::lock_guard<std::mutex> g(jobs_mtx);
                stopping = stop_app;
            }
            if (opts.app_gather_ns > 0 && !gathered && !stopping) {
                sim::sleep_ns(opts.app_gather_ns);
                gathered = true;
            }
            Job job;
            {
                std::lock_guard<std::mutex> g(jobs_mtx);
                if (jobs.empty()) {
                    if (stop_app) return;
                    gathered = false;
                    continue;
                }
                job = std::move(jobs.front());
                jobs.pop_front();
            }
            if (opts.app_delay_ns > 0 && opts.app_gather_ns == 0) sim::sleep_ns(opts.app_delay_ns);
            if (job.stream) {
                try {
                    if (job.first_chunk > 0) job.stream->flush();
                    for (int i = job.first_chunk; i < job.chunks; ++i) {
                        std::string chunk = actors::pattern(job.tag + static_cast<u64>(i), job.chunk_size);
                        job.stream->write(chunk.data(), static_cast<std::streamsize>(chunk.size()));
                        job.stream->flush();
                        if (opts.app_delay_ns > 0) sim::sleep_ns(opts.app_delay_ns / 4 + 1);
                    }
                    job.stream->ends();
                } catch (const std::exception& e) {
                    sim::logf("astream: %s", e.what());
                }
                continue;
            }
            if (job.tmo_ms > 0) {
                try {
                    job.writer->timeoutAfter(std::chrono::milliseconds(job.tmo_ms));
                } catch (const std::exception& e) {
                    sim::logf("timeoutAfter threw: %s", e.what());
                }
                if (!job.reply_after_arm) {
                    std::lock_guard<std::mutex> g(held_mtx);
                    held.push_back(std::move(job.writer));
                    continue;
                }
            }
            try {
                World::track(job.writer->send(Http::Code::Ok, job.body), job.rec);
            } catch (const std::exception& e) {
                sim::IgnoreScope ig;
                job.rec->rejected++;
                job.rec->error = std::string("send threw: ") + e.what();
            }
        }
    });
}

inline void World::stop()
{
    {
        std::lock_guard<std::mutex> g(jobs_mtx);
        stop_app = true;
    }
    if (app.joinable()) app.join();
    ep->shutdown();
    {
        // letting go of kept writers on this thread is the harness's choice (see scen_c08.cc)
        sim::IgnoreScope ig;
        std::lock_guard<std::mutex> g(held_mtx);
        held.clear();
    }
    ep.reset();
    cleanup_files();
}

// helpers for clients ------------------------------------------------------------------------
inline actors::Step step(actors::Step::Kind k, i64 dur_ns = 0, int n = 0)
{
    actors::Step s;
    s.kind = k;
    s.dur_ns = dur_ns;
    s.n = n;
    return s;
}
inline actors::Step send_step(const std::string& data, std::vector<size_t> cuts = {}, i64 gap_ns = 0)
{
    actors::Step s;
    s.kind = actors::Step::Send;
    s.data = data;
    s.cuts = std::move(cuts);
    s.gap_ns = gap_ns;
    return s;
}

} // namespace httpw
