/* The baton: the only real synchronisation between simulated threads.
 * Compiled WITHOUT any sanitizer instrumentation and using raw futex system
 * calls, so that ThreadSanitizer never sees it and keeps judging the program
 * under test by the program's own synchronisation only. */
#define _GNU_SOURCE
#include <linux/futex.h>
#include <sys/syscall.h>
#include <unistd.h>

void sim_baton_park(int* word)
{
    for (;;) {
        if (__atomic_load_n(word, __ATOMIC_ACQUIRE) != 0)
            break;
        syscall(SYS_futex, word, FUTEX_WAIT_PRIVATE, 0, (void*)0, (void*)0, 0);
    }
    __atomic_store_n(word, 0, __ATOMIC_RELAXED);
}

void sim_baton_unpark(int* word)
{
    __atomic_store_n(word, 1, __ATOMIC_RELEASE);
    syscall(SYS_futex, word, FUTEX_WAKE_PRIVATE, 1, (void*)0, (void*)0, 0);
}

/* Plain loads/stores of simulator words shared with the watchdog thread. */
unsigned long sim_raw_load(const unsigned long* p) { return __atomic_load_n(p, __ATOMIC_RELAXED); }
void sim_raw_store(unsigned long* p, unsigned long v) { __atomic_store_n(p, v, __ATOMIC_RELAXED); }
