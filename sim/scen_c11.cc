// C11 — promise chains deliver every outcome exactly once to the right continuation.
//
// A generated promise program (roots, then-nodes with value / void / promise-returning
// continuations and ignore / rethrow / custom rejection handlers, whenAll / whenAny /
// whenAll(range) over 1..4 inputs) is executed as a set of actions (attach node, settle root,
// settle inner promise). The actions are distributed over 1..3 simulated threads; each action
// runs under one application-level lock, so the scheduler decides the order of whole
// operations ("all orders of attaching and settling"). A small reference model of exactly the
// clauses of C11 replays the executed order and predicts, per continuation, whether it must
// have run (and with which value / exception), must not have run, or is left open by the
// statement.
#include <pistache/async.h>

#include <memory>
#include <mutex>
#include <thread>
#include <tuple>

#include "scenario.h"

using namespace scen;
using namespace Pistache;
using sim::i64;

namespace {

struct TestExc : std::runtime_error {
    int tag;
    explicit TestExc(int t) : std::runtime_error("test"), tag(t) { }
};
int exc_tag(std::exception_ptr e)
{
    if (!e) return -2;
    try {
        std::rethrow_exception(e);
    } catch (const TestExc& t) {
        return t.tag;
    } catch (...) {
        return -1;
    }
}

enum NodeKind { NRoot, NThen, NAll, NAny, NAllRange };
enum FKind { FValue, FVoid, FResolved, FPending, FRejected };
enum RKind { RIgnore, RThrow, RCustom };

struct Node {
    NodeKind kind = NRoot;
    int parent = -1;
    FKind f = FValue;
    RKind r = RThrow;
    std::vector<int> inputs;
    int nconst = 0; // whenAll / whenAny: number of plain values that follow the promises in the argument list
    bool valid = true;
};
inline int const_value(int node, int j) { return 7000 + 10 * node + j; }

struct Obs { // what the harness observed for one node's continuations
    int f_count = 0, r_count = 0;
    int f_val = 0, r_exc = 0;
    std::vector<int> tuple; // combinators: the values delivered
};

// ---- reference model ---------------------------------------------------------------------
struct MState {
    enum S { NotCreated, Pending, Fulfilled, Rejected, Unknown } s = NotCreated;
    int val = 0, exc = 0;
    std::vector<int> children; // nodes attached to this promise, in attach order
};
struct Expect {
    // -1 = left open by the statement, otherwise the exact number of runs (0 or 1)
    int f = 0, r = 0;
    int f_val = 0, r_exc = 0;
    std::vector<int> tuple;
    bool tuple_known = false;
};
struct Model {
    std::vector<Node>* nodes;
    std::vector<MState> st;
    std::vector<Expect> ex;
    // inner pending promise of an FPending node
    std::vector<MState> inner;
    // combinator bookkeeping
    struct Comb { int got = 0; bool done = false; std::vector<int> vals; std::vector<bool> have; };
    std::vector<Comb> comb;

    explicit Model(std::vector<Node>* n) : nodes(n), st(n->size()), ex(n->size()), inner(n->size()), comb(n->size()) { }

    int node_value(int k, int x) const { return static_cast<int>((static_cast<unsigned>(x) + 7u * static_cast<unsigned>(k + 1)) & 0x3fffffffu); }

    void settle(int k, MState::S s, int v, int e)
    {
        MState& m = st[static_cast<size_t>(k)];
        if (m.s != MState::Pending) return;
        m.s = s;
        m.val = v;
        m.exc = e;
        auto ch = m.children;
        for (int c : ch) deliver(k, c);
    }
    // the promise of node p is settled (or unknown) and node c is attached to it
    void deliver(int p, int c)
    {
        const MState& ps = st[static_cast<size_t>(p)];
        Node& n = (*nodes)[static_cast<size_t>(c)];
        Expect& e = ex[static_cast<size_t>(c)];
        if (n.kind == NThen) {
            if (ps.s == MState::Unknown) {
                e.f = e.r = -1;
                settle(c, MState::Unknown, 0, 0);
            } else if (ps.s == MState::Fulfilled) {
                if (e.f == 0) {
                    e.f = 1;
                    e.f_val = ps.val;
                }
                switch (n.f) {
                case FValue: settle(c, MState::Fulfilled, node_value(c, ps.val), 0); break;
                case FVoid: settle(c, MState::Unknown, 0, 0); break; // a continuation returning nothing ends the chain
                case FResolved: settle(c, MState::Fulfilled, node_value(c, ps.val), 0); break;
                case FRejected: settle(c, MState::Rejected, 0, 5000 + c); break;
                case FPending:
                    inner[static_cast<size_t>(c)].s = MState::Pending; // D follows the inner promise
                    break;
                }
            } else if (ps.s == MState::Rejected) {
                if (e.r == 0) {
                    e.r = 1;
                    e.r_exc = ps.exc;
                }
                if (n.r == RThrow) settle(c, MState::Rejected, 0, ps.exc);
                else settle(c, MState::Unknown, 0, 0); // what flows past a handler that does not rethrow is left open
            }
        } else { // combinators: p is one of the inputs of c
            Comb& cb = comb[static_cast<size_t>(c)];
            if (cb.done) return; // later outcomes are ignored
            if (st[static_cast<size_t>(c)].s != MState::Pending) return;
            size_t idx = 0;
            bool found = false;
            for (size_t i = 0; i < n.inputs.size(); ++i)
                if (n.inputs[i] == p && !cb.have[i]) {
                    idx = i;
                    found = true;
                    break;
                }
            if (!found) return;
            if (ps.s == MState::Unknown) {
                cb.done = true;
                e.f = e.r = -1;
                settle(c, MState::Unknown, 0, 0);
                return;
            }
            if (ps.s == MState::Rejected) {
                cb.done = true;
                e.r = 1;
                e.r_exc = ps.exc;
                settle(c, MState::Rejected, 0, ps.exc);
                return;
            }
            cb.have[idx] = true;
            cb.vals[idx] = ps.val;
            cb.got++;
            if (n.kind == NAny) {
                cb.done = true;
                e.f = 1;
                e.tuple = { ps.val };
                e.tuple_known = true;
                settle(c, MState::Fulfilled, ps.val, 0);
            } else if (cb.got == static_cast<int>(n.inputs.size()) + n.nconst) {
                complete_all(c);
            }
        }
    }
    void complete_all(int c)
    {
        Comb& cb = comb[static_cast<size_t>(c)];
        Expect& e = ex[static_cast<size_t>(c)];
        cb.done = true;
        e.f = 1;
        e.tuple = cb.vals;
        e.tuple_known = true;
        unsigned sum = 0;
        for (int v : cb.vals) sum = sum * 31u + static_cast<unsigned>(v);
        settle(c, MState::Fulfilled, static_cast<int>(sum & 0x3fffffffu), 0);
    }
    void attach(int c)
    {
        Node& n = (*nodes)[static_cast<size_t>(c)];
        st[static_cast<size_t>(c)].s = MState::Pending;
        if (n.kind == NThen) {
            MState& p = st[static_cast<size_t>(n.parent)];
            p.children.push_back(c);
            if (p.s != MState::Pending) deliver(n.parent, c);
        } else {
            Comb& cb = comb[static_cast<size_t>(c)];
            cb.vals.assign(n.inputs.size() + static_cast<size_t>(n.nconst), 0);
            cb.have.assign(n.inputs.size() + static_cast<size_t>(n.nconst), false);
            for (int in : n.inputs) st[static_cast<size_t>(in)].children.push_back(c);
            for (int in : n.inputs) {
                if (st[static_cast<size_t>(in)].s != MState::Pending) deliver(in, c);
            }
            // the plain values come after the promises in the argument list: they count as inputs that are fulfilled already
            for (int j = 0; j < n.nconst; ++j) {
                if (cb.done || st[static_cast<size_t>(c)].s != MState::Pending) break;
                size_t idx = n.inputs.size() + static_cast<size_t>(j);
                cb.have[idx] = true;
                cb.vals[idx] = const_value(c, j);
                cb.got++;
                if (n.kind == NAny) {
                    Expect& e = ex[static_cast<size_t>(c)];
                    cb.done = true;
                    e.f = 1;
                    e.tuple = { cb.vals[idx] };
                    e.tuple_known = true;
                    settle(c, MState::Fulfilled, cb.vals[idx], 0);
                } else if (cb.got == static_cast<int>(n.inputs.size()) + n.nconst)
                    complete_all(c);
            }
        }
    }
    void settle_inner(int c, bool rej, int v, int e)
    {
        MState& in = inner[static_cast<size_t>(c)];
        if (in.s != MState::Pending) return;
        in.s = rej ? MState::Rejected : MState::Fulfilled;
        settle(c, in.s, v, e);
    }
};

// ---- plan generation -------------------------------------------------------------------------
const char* fk_name[] = { "value", "void", "resolved", "pending", "rejected" };
const char* rk_name[] = { "ignore", "throw", "custom" };

Json gen(sim::Rng& rng, int tier)
{
    Json p = Json::object();
    int nroots = static_cast<int>(rng.range(1, tier ? 4 : 3));
    int nnodes = static_cast<int>(rng.range(1, tier ? 10 : 7));
    Json nodes = Json::array();
    std::vector<bool> is_int; // node yields a Promise<int> that can be used further
    for (int i = 0; i < nroots; ++i) {
        Json n = Json::object();
        n["kind"] = "root";
        nodes.push(n);
        is_int.push_back(true);
    }
    for (int i = 0; i < nnodes; ++i) {
        std::vector<int> usable;
        for (size_t k = 0; k < is_int.size(); ++k)
            if (is_int[k]) usable.push_back(static_cast<int>(k));
        Json n = Json::object();
        int kind = static_cast<int>(rng.below(10));
        if (kind < 6 || usable.empty()) {
            n["kind"] = "then";
            n["parent"] = usable[rng.below(usable.size())];
            int f = static_cast<int>(rng.below(8));
            FKind fk = f < 3 ? FValue : f == 3 ? FVoid : f == 4 ? FResolved : f < 7 ? FPending : FRejected;
            n["f"] = fk_name[fk];
            n["r"] = rk_name[rng.below(10) < 6 ? RThrow : rng.chance(0.5) ? RIgnore : RCustom];
            is_int.push_back(fk != FVoid);
        } else {
            n["kind"] = kind == 6 ? "all" : kind == 7 ? "any" : kind == 8 ? "allrange" : (rng.chance(0.5) ? "all" : "any");
            int arity = static_cast<int>(rng.range(1, 4));
            // some of the trailing arguments of whenAll / whenAny are plain values instead of promises
            int nconst = (n.str("kind") != "allrange" && arity > 1 && rng.chance(0.3)) ? static_cast<int>(rng.range(1, arity - 1)) : 0;
            Json in = Json::array();
            for (int a = 0; a < arity - nconst; ++a) in.push(usable[rng.below(usable.size())]);
            n["inputs"] = in;
            n["nconst"] = nconst;
            is_int.push_back(true);
        }
        nodes.push(n);
    }
    p["nodes"] = nodes;
    // actions: one attach per non-root node, one settle per root, one settle_inner per pending node; random order
    // (attach actions keep creation order so that parents exist; the interpreter waits for missing dependencies)
    struct A { std::string op; int node; bool rej; };
    std::vector<A> acts;
    for (int i = 0; i < nroots; ++i) acts.push_back({ "settle", i, rng.chance(0.35) });
    for (int i = nroots; i < nroots + nnodes; ++i) {
        acts.push_back({ "attach", i, false });
        if (nodes.at(static_cast<size_t>(i)).str("f") == "pending") acts.push_back({ "settle_inner", i, rng.chance(0.3) });
    }
    // shuffle, then restore the relative order of attach actions
    for (size_t i = acts.size(); i > 1; --i) std::swap(acts[i - 1], acts[rng.below(i)]);
    std::vector<int> attach_nodes;
    for (auto& a : acts)
        if (a.op == "attach") attach_nodes.push_back(a.node);
    std::sort(attach_nodes.begin(), attach_nodes.end());
    size_t ai = 0;
    for (auto& a : acts)
        if (a.op == "attach") a.node = attach_nodes[ai++];
    int nthreads = static_cast<int>(rng.range(1, 3));
    Json ja = Json::array();
    for (auto& a : acts) {
        Json j = Json::object();
        j["op"] = a.op;
        j["node"] = a.node;
        if (a.op != "attach") j["reject"] = a.rej;
        j["thread"] = static_cast<int>(rng.below(static_cast<sim::u64>(nthreads)));
        ja.push(j);
    }
    p["actions"] = ja;
    p["threads"] = nthreads;
    // in half of the runs the application lets go of every promise handle (and resolver) as soon as it has no further use for it
    p["drop_handles"] = rng.chance(0.5);
    gen_sched(rng, p, 200);
    return p;
}

// ---- execution ----------------------------------------------------------------------------------
template <size_t N> struct TupN;
// The value type of every promise in a program: an int that shows when it has been moved from. The values stored in a
// promise are shared by all its continuations and by the combinators it feeds; a continuation that takes its argument by
// value must get a copy, never the stored object itself.
struct TV {
    static constexpr int kMovedFrom = -77777;
    int v = 0;
    TV() = default;
    TV(int x) : v(x) { }
    TV(const TV&) = default;
    TV& operator=(const TV&) = default;
    TV(TV&& o) noexcept : v(o.v) { o.v = kMovedFrom; }
    TV& operator=(TV&& o) noexcept
    {
        if (&o != this) {
            v = o.v;
            o.v = kMovedFrom;
        }
        return *this;
    }
    operator int() const { return v; }
};
using PInt = Async::Promise<TV>;
template <> struct TupN<2> { using type = std::tuple<TV, TV>; };
template <> struct TupN<3> { using type = std::tuple<TV, TV, TV>; };
template <> struct TupN<4> { using type = std::tuple<TV, TV, TV, TV>; };

struct Exec {
    std::vector<Node> nodes;
    std::vector<std::unique_ptr<PInt>> prom;           // the Promise<int> a node yields (null for void nodes / not created)
    std::vector<bool> created;
    std::vector<Obs> obs;
    std::vector<std::unique_ptr<Async::Deferred<TV>>> rootDef, innerDef;
    std::mutex big;                                      // application-level lock: one action at a time
    struct Done { std::string op; int node; bool rej; bool raised; std::string what; };
    std::vector<Done> log;
    std::vector<std::unique_ptr<std::vector<PInt>>> ranges; // keeps whenAll(range) inputs alive

    int node_value(int k, int x) const { return static_cast<int>((static_cast<unsigned>(x) + 7u * static_cast<unsigned>(k + 1)) & 0x3fffffffu); }

    template <typename F>
    static PInt then_with(PInt& parent, RKind rk, Obs& o, F f)
    {
        if (rk == RThrow) return parent.then(f, [&o](std::exception_ptr e) { o.r_count++; o.r_exc = exc_tag(e); Async::Throw(e); });
        if (rk == RIgnore) return parent.then(f, [&o](std::exception_ptr e) { o.r_count++; o.r_exc = exc_tag(e); Async::IgnoreException(e); });
        return parent.then(f, [&o](std::exception_ptr e) { o.r_count++; o.r_exc = exc_tag(e); });
    }

    PInt make_then(int k)
    {
        Node& n = nodes[static_cast<size_t>(k)];
        PInt& parent = *prom[static_cast<size_t>(n.parent)];
        Obs& o = obs[static_cast<size_t>(k)];
        auto body = [this, k, &o](TV v) { o.f_count++; o.f_val = v; return TV(node_value(k, v)); };
        switch (n.f) {
        case FResolved: return then_with(parent, n.r, o, [body](TV v) { return PInt::resolved(body(v)); });
        case FRejected: return then_with(parent, n.r, o, [body, k](TV v) { body(v); return PInt::rejected(TestExc(5000 + k)); });
        case FPending:
            return then_with(parent, n.r, o, [this, body, k](TV v) {
                body(v);
                return PInt([this, k](Async::Deferred<TV> d) { innerDef[static_cast<size_t>(k)] = std::make_unique<Async::Deferred<TV>>(std::move(d)); });
            });
        default: return then_with(parent, n.r, o, body);
        }
    }
    void make_then_void(int k)
    {
        Node& n = nodes[static_cast<size_t>(k)];
        PInt& parent = *prom[static_cast<size_t>(n.parent)];
        Obs& o = obs[static_cast<size_t>(k)];
        auto body = [&o](TV v) { o.f_count++; o.f_val = v; };
        if (n.r == RThrow) parent.then(body, [&o](std::exception_ptr e) { o.r_count++; o.r_exc = exc_tag(e); Async::Throw(e); });
        else parent.then(body, [&o](std::exception_ptr e) { o.r_count++; o.r_exc = exc_tag(e); });
    }

    template <typename Tuple, size_t... I>
    static std::vector<int> tup(const Tuple& t, std::index_sequence<I...>) { return { std::get<I>(t)... }; }

    template <size_t... P, size_t... C>
    static auto call_all(std::vector<PInt*>& in, int k, std::index_sequence<P...>, std::index_sequence<C...>) { return Async::whenAll(*in[P]..., TV(const_value(k, static_cast<int>(C)))...); }
    template <size_t... P, size_t... C>
    static auto call_any(std::vector<PInt*>& in, int k, std::index_sequence<P...>, std::index_sequence<C...>) { return Async::whenAny(*in[P]..., TV(const_value(k, static_cast<int>(C)))...); }
    template <size_t NP, size_t NC>
    PInt make_mixed(int k, std::vector<PInt*>& in)
    {
        Node& n = nodes[static_cast<size_t>(k)];
        Obs& o = obs[static_cast<size_t>(k)];
        auto rec_r = [&o](std::exception_ptr e) { o.r_count++; o.r_exc = exc_tag(e); };
        auto sum_of = [](const std::vector<int>& v) { unsigned s = 0; for (int x : v) s = s * 31u + static_cast<unsigned>(x); return static_cast<int>(s & 0x3fffffffu); };
        if (n.kind == NAny) {
            auto R = call_any(in, k, std::make_index_sequence<NP>(), std::make_index_sequence<NC>());
            R.then([&o](const Async::Any& a) { o.f_count++; o.tuple = { a.cast<TV>() }; }, rec_r);
            return R.then([](const Async::Any& a) { return a.cast<TV>(); }, Async::Throw);
        }
        using Tup = typename TupN<NP + NC>::type;
        auto R = call_all(in, k, std::make_index_sequence<NP>(), std::make_index_sequence<NC>());
        R.then([&o](const Tup& t) { o.f_count++; o.tuple = tup(t, std::make_index_sequence<NP + NC>()); }, rec_r);
        return R.then([sum_of](const Tup& t) { return TV(sum_of(tup(t, std::make_index_sequence<NP + NC>()))); }, Async::Throw);
    }

    PInt make_comb(int k)
    {
        Node& n = nodes[static_cast<size_t>(k)];
        Obs& o = obs[static_cast<size_t>(k)];
        std::vector<PInt*> in;
        for (int i : n.inputs) in.push_back(prom[static_cast<size_t>(i)].get());
        auto rec_r = [&o](std::exception_ptr e) { o.r_count++; o.r_exc = exc_tag(e); };
        auto sum_of = [](const std::vector<int>& v) { unsigned s = 0; for (int x : v) s = s * 31u + static_cast<unsigned>(x); return static_cast<int>(s & 0x3fffffffu); };
        if (n.nconst > 0 && n.kind != NAllRange) {
            switch (in.size() * 10 + static_cast<size_t>(n.nconst)) {
            case 11: return make_mixed<1, 1>(k, in);
            case 12: return make_mixed<1, 2>(k, in);
            case 13: return make_mixed<1, 3>(k, in);
            case 21: return make_mixed<2, 1>(k, in);
            case 22: return make_mixed<2, 2>(k, in);
            default: return make_mixed<3, 1>(k, in);
            }
        }
        if (n.kind == NAny) {
            auto fin = [&](Async::Promise<Async::Any> R) {
                R.then([&o](const Async::Any& a) { o.f_count++; o.tuple = { a.cast<TV>() }; }, rec_r);
                return R.then([](const Async::Any& a) { return a.cast<TV>(); }, Async::Throw);
            };
            switch (in.size()) {
            case 1: return fin(Async::whenAny(*in[0]));
            case 2: return fin(Async::whenAny(*in[0], *in[1]));
            case 3: return fin(Async::whenAny(*in[0], *in[1], *in[2]));
            default: return fin(Async::whenAny(*in[0], *in[1], *in[2], *in[3]));
            }
        }
        if (n.kind == NAllRange) {
            auto vec = std::make_unique<std::vector<PInt>>();
            for (PInt* p : in) vec->push_back(p->then([](TV v) { return v; }, Async::Throw));
            auto R = Async::whenAll(vec->begin(), vec->end());
            ranges.push_back(std::move(vec));
            R.then([&o](const std::vector<TV>& v) { o.f_count++; o.tuple.assign(v.begin(), v.end()); }, rec_r);
            return R.then([sum_of](const std::vector<TV>& v) { return TV(sum_of(std::vector<int>(v.begin(), v.end()))); }, Async::Throw);
        }
        switch (in.size()) {
        case 1: {
            auto R = Async::whenAll(*in[0]);
            R.then([&o](const std::tuple<TV>& t) { o.f_count++; o.tuple = tup(t, std::make_index_sequence<1>()); }, rec_r);
            return R.then([sum_of](const std::tuple<TV>& t) { return TV(sum_of(tup(t, std::make_index_sequence<1>()))); }, Async::Throw);
        }
        case 2: {
            auto R = Async::whenAll(*in[0], *in[1]);
            R.then([&o](const std::tuple<TV, TV>& t) { o.f_count++; o.tuple = tup(t, std::make_index_sequence<2>()); }, rec_r);
            return R.then([sum_of](const std::tuple<TV, TV>& t) { return TV(sum_of(tup(t, std::make_index_sequence<2>()))); }, Async::Throw);
        }
        case 3: {
            auto R = Async::whenAll(*in[0], *in[1], *in[2]);
            R.then([&o](const std::tuple<TV, TV, TV>& t) { o.f_count++; o.tuple = tup(t, std::make_index_sequence<3>()); }, rec_r);
            return R.then([sum_of](const std::tuple<TV, TV, TV>& t) { return TV(sum_of(tup(t, std::make_index_sequence<3>()))); }, Async::Throw);
        }
        default: {
            auto R = Async::whenAll(*in[0], *in[1], *in[2], *in[3]);
            R.then([&o](const std::tuple<TV, TV, TV, TV>& t) { o.f_count++; o.tuple = tup(t, std::make_index_sequence<4>()); }, rec_r);
            return R.then([sum_of](const std::tuple<TV, TV, TV, TV>& t) { return TV(sum_of(tup(t, std::make_index_sequence<4>()))); }, Async::Throw);
        }
        }
    }

    bool drop_handles = false;
    // the application lets go of what it does not need any more: the handle of a promise once everything that is going to be
    // attached to it has been attached (resolvers are given up when they are used)
    void release_unused()
    {
        if (!drop_handles) return;
        for (size_t k = 0; k < nodes.size(); ++k) {
            if (!prom[k] || !created[k]) continue;
            bool needed = false;
            for (size_t j = k + 1; j < nodes.size() && !needed; ++j) {
                if (!nodes[j].valid || created[j]) continue;
                if (nodes[j].kind == NThen && nodes[j].parent == static_cast<int>(k)) needed = true;
                for (int i : nodes[j].inputs)
                    if (i == static_cast<int>(k)) needed = true;
            }
            if (!needed) prom[k].reset();
        }
    }

    bool deps_ready(const std::string& op, int k) const
    {
        if (k < 0 || k >= static_cast<int>(nodes.size()) || !nodes[static_cast<size_t>(k)].valid) return false;
        const Node& n = nodes[static_cast<size_t>(k)];
        if (op == "attach") {
            if (n.kind == NRoot || created[static_cast<size_t>(k)]) return false;
            if (n.kind == NThen) return created[static_cast<size_t>(n.parent)] && prom[static_cast<size_t>(n.parent)];
            for (int i : n.inputs)
                if (!created[static_cast<size_t>(i)] || !prom[static_cast<size_t>(i)]) return false;
            return true;
        }
        if (op == "settle") return n.kind == NRoot && rootDef[static_cast<size_t>(k)] != nullptr;
        if (op == "settle_inner") return innerDef[static_cast<size_t>(k)] != nullptr;
        return false;
    }

    void perform(const std::string& op, int k, bool rej)
    {
        Done d { op, k, rej, false, "" };
        try {
            if (op == "attach") {
                Node& n = nodes[static_cast<size_t>(k)];
                if (n.kind == NThen && n.f == FVoid) make_then_void(k);
                else if (n.kind == NThen) prom[static_cast<size_t>(k)] = std::make_unique<PInt>(make_then(k));
                else prom[static_cast<size_t>(k)] = std::make_unique<PInt>(make_comb(k));
                created[static_cast<size_t>(k)] = true;
            } else if (op == "settle") {
                auto def = std::move(rootDef[static_cast<size_t>(k)]);
                if (rej) def->reject(TestExc(100 + k));
                else def->resolve(TV(1000 * (k + 1)));
            } else if (op == "settle_inner") {
                auto def = std::move(innerDef[static_cast<size_t>(k)]);
                if (rej) def->reject(TestExc(200 + k));
                else def->resolve(TV(9000 + k));
            }
        } catch (const std::exception& e) {
            d.raised = true;
            d.what = e.what();
        } catch (...) {
            d.raised = true;
            d.what = "non-std exception";
        }
        log.push_back(d);
        release_unused();
    }
};

void run(const Json& plan)
{
    Exec X;
    const Json& jn = plan.get("nodes");
    size_t N = jn.size();
    X.nodes.resize(N);
    for (size_t i = 0; i < N; ++i) {
        const Json& j = jn.at(i);
        Node& n = X.nodes[i];
        std::string kind = j.str("kind", "root");
        n.kind = kind == "then" ? NThen : kind == "all" ? NAll : kind == "any" ? NAny : kind == "allrange" ? NAllRange : NRoot;
        if (n.kind == NThen) {
            n.parent = static_cast<int>(j.num("parent", -1));
            std::string f = j.str("f", "value"), r = j.str("r", "throw");
            n.f = f == "void" ? FVoid : f == "resolved" ? FResolved : f == "pending" ? FPending : f == "rejected" ? FRejected : FValue;
            n.r = r == "ignore" ? RIgnore : r == "custom" ? RCustom : RThrow;
            // a parent must be an earlier node that yields a Promise<int>
            n.valid = n.parent >= 0 && n.parent < static_cast<int>(i) && X.nodes[static_cast<size_t>(n.parent)].valid
                && !(X.nodes[static_cast<size_t>(n.parent)].kind == NThen && X.nodes[static_cast<size_t>(n.parent)].f == FVoid);
        } else if (n.kind != NRoot) {
            const Json& in = j.get("inputs");
            for (size_t a = 0; a < in.size() && a < 4; ++a) n.inputs.push_back(static_cast<int>(in.at(a).as_int(-1)));
            n.nconst = (n.kind == NAll || n.kind == NAny) ? std::max(0, std::min(3, static_cast<int>(j.num("nconst", 0)))) : 0;
            while (n.inputs.size() + static_cast<size_t>(n.nconst) > 4 && n.nconst > 0) n.nconst--;
            if (n.inputs.size() == 3 && n.nconst > 1) n.nconst = 1;
            if (n.inputs.size() == 2 && n.nconst > 2) n.nconst = 2;
            n.valid = !n.inputs.empty();
            for (int x : n.inputs)
                if (x < 0 || x >= static_cast<int>(i) || !X.nodes[static_cast<size_t>(x)].valid
                    || (X.nodes[static_cast<size_t>(x)].kind == NThen && X.nodes[static_cast<size_t>(x)].f == FVoid))
                    n.valid = false;
        }
    }
    X.drop_handles = plan.flag("drop_handles");
    X.prom.resize(N);
    X.created.assign(N, false);
    X.obs.resize(N);
    X.rootDef.resize(N);
    X.innerDef.resize(N);
    for (size_t i = 0; i < N; ++i) {
        if (X.nodes[i].kind == NRoot) {
            X.prom[i] = std::make_unique<PInt>([&X, i](Async::Deferred<TV> d) { X.rootDef[i] = std::make_unique<Async::Deferred<TV>>(std::move(d)); });
            X.created[i] = true;
        }
    }

    const Json& ja = plan.get("actions");
    int nthreads = std::max(1, std::min(3, static_cast<int>(plan.num("threads", 1))));
    std::vector<std::thread> threads;
    for (int t = 0; t < nthreads; ++t) {
        threads.emplace_back([&, t] {
            sim::set_self_name(("party" + std::to_string(t)).c_str());
            for (size_t i = 0; i < ja.size(); ++i) {
                const Json& a = ja.at(i);
                if (static_cast<int>(a.num("thread", 0)) % nthreads != t) continue;
                std::string op = a.str("op");
                int k = static_cast<int>(a.num("node", -1));
                bool rej = a.flag("reject");
                const std::function<bool()> pred = [&] { return X.deps_ready(op, k); };
                if (!scen::wait_for(pred, 5 * 1000 * 1000, "c11.wait-deps")) continue; // dependency never appeared: skip
                std::lock_guard<std::mutex> g(X.big);
                if (!X.deps_ready(op, k)) continue;
                X.perform(op, k, rej);
            }
        });
    }
    for (auto& t : threads) t.join();

    // ---- oracle: replay the executed order through the reference model
    sim::Recorder& r = sim::rec();
    Model M(&X.nodes);
    for (size_t i = 0; i < N; ++i)
        if (X.nodes[i].kind == NRoot) M.st[i].s = MState::Pending;
    for (auto& d : X.log) {
        if (d.op == "attach") M.attach(d.node);
        else if (d.op == "settle") M.settle(d.node, d.rej ? MState::Rejected : MState::Fulfilled, 1000 * (d.node + 1), 100 + d.node);
        else M.settle_inner(d.node, d.rej, 9000 + d.node, 200 + d.node);
        if (d.raised)
            r.violation(std::string("C11.settle:") + (d.op == "attach" ? "attach-raises" : "outcome-raises-in-settling-party"),
                        "action " + d.op + " node " + std::to_string(d.node) + (d.rej ? " (reject)" : " (fulfil)") + " raised: " + d.what);
        if (d.op != "attach") r.probe(d.rej ? "settle-reject" : "settle-fulfil");
    }
    r.stats["actions_executed"] = static_cast<i64>(X.log.size());
    for (size_t i = 0; i < N; ++i) {
        const Node& n = X.nodes[i];
        if (n.kind == NRoot || !X.created[i]) continue;
        const Obs& o = X.obs[i];
        const Expect& e = M.ex[i];
        std::string who = "node " + std::to_string(i) + " (" + (n.kind == NThen ? std::string("then f=") + fk_name[n.f] + " r=" + rk_name[n.r] : n.kind == NAny ? "whenAny" : n.kind == NAll ? "whenAll" : "whenAll(range)") + ")";
        const char* fam = n.kind == NThen ? "then" : "combinator";
        r.probe(n.kind == NThen ? std::string("then-") + fk_name[n.f] : n.kind == NAny ? "whenAny" : n.kind == NAll ? "whenAll" : "whenAllRange");
        if (o.f_count > 1) r.violation(std::string("C11.once:fulfilment-continuation-ran-twice:") + fam, who + " fulfilment continuation ran " + std::to_string(o.f_count) + " times");
        if (o.r_count > 1) r.violation(std::string("C11.once:rejection-continuation-ran-twice:") + fam, who + " rejection continuation ran " + std::to_string(o.r_count) + " times");
        if (e.f == 1 && o.f_count == 0) r.violation(std::string("C11.fulfil:continuation-did-not-run:") + fam, who + " was fulfilled but its fulfilment continuation did not run");
        if (e.f == 0 && o.f_count > 0) r.violation(std::string("C11.fulfil:continuation-ran-without-fulfilment:") + fam, who + " fulfilment continuation ran (value " + std::to_string(o.f_val) + ") although its promise was not fulfilled");
        if (e.r == 1 && o.r_count == 0) r.violation(std::string("C11.reject:continuation-did-not-run:") + fam, who + " was rejected but its rejection continuation did not run");
        if (e.r == 0 && o.r_count > 0) r.violation(std::string("C11.reject:continuation-ran-without-rejection:") + fam, who + " rejection continuation ran (tag " + std::to_string(o.r_exc) + ") although its promise was not rejected");
        if (e.f == 1 && o.f_count == 1) {
            if (n.kind == NThen && o.f_val != e.f_val) r.violation("C11.fulfil:wrong-value:then", who + " saw value " + std::to_string(o.f_val) + " instead of " + std::to_string(e.f_val));
            if (n.kind != NThen && e.tuple_known && o.tuple != e.tuple) {
                std::string a, b;
                for (int v : o.tuple) a += std::to_string(v) + " ";
                for (int v : e.tuple) b += std::to_string(v) + " ";
                r.violation("C11.fulfil:wrong-values:combinator", who + " delivered [" + a + "] instead of [" + b + "]");
            }
        }
        if (e.r == 1 && o.r_count == 1 && o.r_exc != e.r_exc)
            r.violation(std::string("C11.reject:wrong-exception:") + fam, who + " saw exception tag " + std::to_string(o.r_exc) + " instead of " + std::to_string(e.r_exc));
        if (e.f == 1) r.probe("expect-fulfil");
        if (e.r == 1) r.probe("expect-reject");
        if (e.f == -1) r.probe("left-open");
    }
}

Scenario sc { "c11_programs", "C11", "generated promise programs, actions ordered by the scheduler, checked against a reference model", gen, run };
Registrar reg(&sc);

} // namespace
