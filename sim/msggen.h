// Generator of well-formed and near-well-formed HTTP/1.1 messages, of segmentations (cut
// lists) biased towards token, CRLF and chunk-framing boundaries, and canonical snapshots of
// parsed messages. Shared by the parser-facing scenarios (C01, C03, C04).
#pragma once
#include <pistache/http.h>

#include <algorithm>
#include <string>
#include <vector>

#include "simrt.h"

namespace msggen {

using sim::Rng;

inline std::string token(Rng& r, int minlen, int maxlen, const char* alphabet = "abcdefghijklmnopqrstuvwxyz0123456789")
{
    size_t n = static_cast<size_t>(r.range(minlen, maxlen));
    size_t al = strlen(alphabet);
    std::string s;
    for (size_t i = 0; i < n; ++i) s.push_back(alphabet[r.below(al)]);
    return s;
}

inline std::string chunked_body(Rng& r, size_t budget, std::string* plain)
{
    static const size_t sizes[] = { 1, 2, 9, 10, 15, 16, 17, 31, 100, 255, 256, 257, 300 };
    std::string out;
    int n = static_cast<int>(r.range(1, 5));
    for (int i = 0; i < n; ++i) {
        size_t sz = sizes[r.below(sizeof sizes / sizeof sizes[0])];
        if (sz + 16 > budget) sz = budget > 20 ? budget - 16 : 1;
        if (budget < 24) break;
        std::string data = token(r, static_cast<int>(sz), static_cast<int>(sz), "abcdefghijklmnopqrstuvwxyzABCDEFGH0123456789 ;=:");
        char b[24];
        snprintf(b, sizeof b, r.chance(0.5) ? "%zx\r\n" : "%zX\r\n", sz);
        out += b;
        out += data;
        out += "\r\n";
        if (plain) *plain += data;
        budget -= sz + strlen(b) + 2;
    }
    out += "0\r\n\r\n";
    return out;
}

struct Msg {
    std::string bytes;
    bool request = true;
    std::string desc;
};

inline Msg gen_request(Rng& r, size_t max_size)
{
    static const char* methods[] = { "GET", "POST", "PUT", "DELETE", "PATCH", "OPTIONS", "HEAD" };
    Msg m;
    std::string method = methods[r.below(7)];
    std::string path;
    int segs = static_cast<int>(r.below(4));
    for (int i = 0; i < segs; ++i) path += "/" + token(r, 1, 8);
    if (path.empty() || r.chance(0.2)) path += "/";
    std::string query;
    int nq = static_cast<int>(r.below(5));
    for (int i = 0; i < nq; ++i) {
        query += (i ? "&" : "?");
        if (r.chance(0.08)) continue; // an empty parameter: "?&a=1", "a=1&&b=2", a trailing "&"
        query += "k" + std::to_string(i) + token(r, 0, 4);
        int v = static_cast<int>(r.below(3));
        if (v == 1) query += "=";
        else if (v == 2) query += "=" + token(r, 1, 8, "abcdefghijklmnopqrstuvwxyz0123456789-_.~%");
    }
    std::string head = method + " " + path + query + (r.chance(0.9) ? " HTTP/1.1\r\n" : " HTTP/1.0\r\n");
    std::vector<std::string> hs;
    if (r.chance(0.8)) hs.push_back("Host: " + token(r, 1, 10) + (r.chance(0.3) ? ":8080" : ""));
    if (r.chance(0.4)) hs.push_back(std::string("Accept: ") + (r.chance(0.5) ? "text/plain" : "application/json; q=0.5"));
    if (r.chance(0.3)) hs.push_back("User-Agent: " + token(r, 1, 12, "abcdefghijklmnopqrstuvwxyz/.0123456789 ()"));
    if (r.chance(0.3)) hs.push_back(std::string("Connection: ") + (r.chance(0.5) ? "keep-alive" : "close"));
    if (r.chance(0.2)) hs.push_back(std::string("Cache-Control: ") + (r.chance(0.5) ? "no-cache" : "max-age=" + std::to_string(r.below(100000))));
    if (r.chance(0.2)) hs.push_back("Authorization: Basic " + token(r, 4, 16, "abcdefghijklmnopqrstuvwxyzABCDEFGHIJKLMNOPQRSTUVWXYZ0123456789+/"));
    if (r.chance(0.3)) {
        std::string c = "Cookie: ";
        int nc = static_cast<int>(r.range(1, 3));
        for (int i = 0; i < nc; ++i) c += (i ? "; " : "") + std::string("c") + std::to_string(i) + token(r, 0, 3) + "=" + token(r, 1, 8);
        hs.push_back(c);
    }
    int nx = static_cast<int>(r.below(4));
    for (int i = 0; i < nx; ++i) {
        std::string name = "X-" + token(r, 1, 8, "abcdefghijklmnopqrstuvwxyzABCDEFGHIJKLMNOPQRSTUVWXYZ-") + std::to_string(i);
        hs.push_back(name + (r.chance(0.8) ? ": " : ":") + token(r, 0, 20, "abcdefghijklmnopqrstuvwxyz0123456789 :;=,/()\""));
    }
    if (r.chance(0.1) && !hs.empty()) hs.push_back(hs[r.below(hs.size())]); // a repeated header: the first occurrence wins
    for (size_t i = hs.size(); i > 1; --i) std::swap(hs[i - 1], hs[r.below(i)]);
    std::string body;
    int bk = static_cast<int>(r.below(10));
    size_t used = head.size();
    for (auto& h : hs) used += h.size() + 2;
    size_t budget = max_size > used + 60 ? max_size - used - 60 : 0;
    if (bk < 3 || budget < 30) {
        m.desc = "no-body";
    } else if (bk < 7) {
        size_t n = static_cast<size_t>(r.below(std::min<size_t>(budget, 600) + 1));
        body = token(r, static_cast<int>(n), static_cast<int>(n), "abcdefghijklmnopqrstuvwxyz0123456789\r\n :");
        hs.push_back("Content-Length: " + std::to_string(n));
        m.desc = "content-length";
    } else {
        if (r.chance(0.5)) hs.push_back("Transfer-Encoding: chunked");
        else hs.insert(hs.begin(), "Transfer-Encoding: chunked");
        body = chunked_body(r, std::min<size_t>(budget, 800), nullptr);
        m.desc = "chunked";
    }
    m.bytes = head;
    for (auto& h : hs) m.bytes += h + "\r\n";
    m.bytes += "\r\n" + body;
    m.request = true;
    return m;
}

inline Msg gen_response(Rng& r, size_t max_size)
{
    static const int codes[] = { 200, 201, 204, 301, 400, 404, 408, 413, 500, 503 };
    Msg m;
    m.request = false;
    std::string head = std::string(r.chance(0.9) ? "HTTP/1.1 " : "HTTP/1.0 ") + std::to_string(codes[r.below(10)]) + " " + token(r, 1, 12, "abcdefghijklmnopqrstuvwxyz ABC") + "\r\n";
    std::vector<std::string> hs;
    if (r.chance(0.5)) hs.push_back(std::string("Content-Type: ") + (r.chance(0.5) ? "text/plain" : "application/json"));
    if (r.chance(0.4)) hs.push_back("Server: " + token(r, 1, 10));
    if (r.chance(0.3)) hs.push_back(std::string("Connection: ") + (r.chance(0.5) ? "keep-alive" : "close"));
    if (r.chance(0.3)) hs.push_back("Set-Cookie: s" + token(r, 0, 3) + "=" + token(r, 1, 8) + (r.chance(0.5) ? "; Path=/" : ""));
    if (r.chance(0.2)) hs.push_back("Location: /" + token(r, 1, 10));
    int nx = static_cast<int>(r.below(3));
    for (int i = 0; i < nx; ++i) hs.push_back("X-" + token(r, 1, 8) + std::to_string(i) + ": " + token(r, 0, 20, "abcdefghijklmnopqrstuvwxyz0123456789 :;=,/"));
    for (size_t i = hs.size(); i > 1; --i) std::swap(hs[i - 1], hs[r.below(i)]);
    size_t used = head.size();
    for (auto& h : hs) used += h.size() + 2;
    size_t budget = max_size > used + 60 ? max_size - used - 60 : 0;
    std::string body;
    int bk = static_cast<int>(r.below(10));
    if (bk < 2 || budget < 30) {
        hs.push_back("Content-Length: 0");
        m.desc = "empty-body";
    } else if (bk < 7) {
        size_t n = static_cast<size_t>(r.below(std::min<size_t>(budget, 600) + 1));
        body = token(r, static_cast<int>(n), static_cast<int>(n), "abcdefghijklmnopqrstuvwxyz0123456789\r\n :");
        hs.push_back("Content-Length: " + std::to_string(n));
        m.desc = "content-length";
    } else {
        hs.push_back("Transfer-Encoding: chunked");
        body = chunked_body(r, std::min<size_t>(budget, 800), nullptr);
        m.desc = "chunked";
    }
    m.bytes = head;
    for (auto& h : hs) m.bytes += h + "\r\n";
    m.bytes += "\r\n" + body;
    return m;
}

// One small mutation that keeps the message near-well-formed.
inline void mutate(Rng& r, Msg& m)
{
    std::string& s = m.bytes;
    if (s.empty()) return;
    int k = static_cast<int>(r.below(15));
    size_t head_end = s.find("\r\n\r\n");
    size_t line_end = s.find("\r\n");
    auto pos_in = [&](size_t lo, size_t hi) { return lo + r.below(hi > lo ? hi - lo : 1); };
    switch (k) {
    case 0: s.erase(pos_in(0, s.size()), 1); m.desc += "+delete-byte"; break;
    case 1: {
        static const char ins[] = { ' ', '\r', '\n', '\0', '\xff', ':', '\t', 'x' };
        s.insert(pos_in(0, s.size()), 1, ins[r.below(sizeof ins)]);
        m.desc += "+insert-byte";
        break;
    }
    case 2: if (line_end != std::string::npos && line_end > 3) { s[line_end - 1] = static_cast<char>('0' + r.below(10)); m.desc += "+version-digit"; } break;
    case 3: { size_t p = s.find(' '); if (p != std::string::npos) { s.erase(p, 1); m.desc += "+missing-sp"; } break; }
    case 4: { size_t p = s.find("\r\n", pos_in(0, s.size())); if (p != std::string::npos) { s.erase(p + 1, 1); m.desc += "+lone-cr"; } break; }
    case 5: { size_t p = s.find("\r\n", pos_in(0, s.size())); if (p != std::string::npos) { s.erase(p, 1); m.desc += "+lone-lf"; } break; }
    case 6: if (head_end != std::string::npos) { s.insert(head_end + 2, "Transfer-Encoding: chunked\r\nContent-Length: 5\r\n"); m.desc += "+both-framings"; } break;
    case 7: if (head_end != std::string::npos && head_end + 4 < s.size()) { s[pos_in(head_end + 4, std::min(s.size(), head_end + 8))] = 'g'; m.desc += "+bad-chunk-size"; } break;
    case 8: { size_t p = s.find("Content-Length: "); if (p != std::string::npos) { s.insert(p + 16, r.chance(0.5) ? "99999999999999999999" : "-"); m.desc += "+bad-content-length"; } break; }
    case 9: s = token(r, 1, 9, "GETPOSXYZ") + s.substr(std::min<size_t>(3, s.size())); m.desc += "+method"; break;
    case 10: { size_t p = pos_in(0, s.size()); s[p] = static_cast<char>(r.below(256)); m.desc += "+random-byte"; break; }
    // legal but unusual forms (RFC 7230): trailer fields after the last chunk, a chunk extension, empty lines before the start line
    case 12: if (s.size() >= 5 && s.compare(s.size() - 5, 5, "0\r\n\r\n") == 0) { s.insert(s.size() - 2, r.chance(0.5) ? "X-Trailer: done\r\n" : "Expires: never\r\nX-T: 1\r\n"); m.desc += "+trailer"; } break;
    case 13: if (head_end != std::string::npos) { size_t p = s.find("\r\n", head_end + 4); if (p != std::string::npos && s.find("chunked") != std::string::npos) { s.insert(p, r.chance(0.5) ? ";ext=1" : ";a"); m.desc += "+chunk-extension"; } } break;
    case 14: s.insert(0, r.chance(0.7) ? "\r\n" : "\r\n\r\n"); m.desc += "+leading-crlf"; break;
    default: { size_t p = s.find(':'); if (p != std::string::npos) { s.erase(p, 1); m.desc += "+missing-colon"; } break; }
    }
}

// Cut list for a message of n bytes: k cuts, biased to land inside CRLF pairs, chunk-size lines and tokens.
inline std::vector<size_t> gen_cuts(Rng& r, const std::string& s, int maxcuts)
{
    std::vector<size_t> cuts;
    size_t n = s.size();
    if (n < 2) return cuts;
    int k = static_cast<int>(r.range(1, maxcuts));
    std::vector<size_t> crlf;
    for (size_t p = s.find("\r\n"); p != std::string::npos; p = s.find("\r\n", p + 1)) crlf.push_back(p);
    for (int i = 0; i < k; ++i) {
        size_t c;
        int how = static_cast<int>(r.below(10));
        if (how < 4 && !crlf.empty()) {
            size_t p = crlf[r.below(crlf.size())];
            c = p + r.below(4); // before CR, between CR and LF, after LF, one further
            if (r.chance(0.2) && p > 0) c = p - 1;
        } else c = 1 + r.below(n - 1);
        if (c >= 1 && c < n) cuts.push_back(c);
    }
    std::sort(cuts.begin(), cuts.end());
    cuts.erase(std::unique(cuts.begin(), cuts.end()), cuts.end());
    return cuts;
}

// ---- canonical snapshots ---------------------------------------------------------------------------
inline std::string esc(const std::string& s)
{
    std::string o;
    for (unsigned char c : s) {
        if (c >= 0x20 && c < 0x7f && c != '\\' && c != '|') o.push_back(static_cast<char>(c));
        else {
            char b[8];
            snprintf(b, sizeof b, "\\x%02x", c);
            o += b;
        }
    }
    return o;
}

inline std::string snap_common(const Pistache::Http::Message& m)
{
    using namespace Pistache::Http;
    std::string s;
    std::vector<std::string> raw;
    for (auto& kv : m.headers().rawList()) {
        std::string name = kv.first;
        for (auto& c : name) c = static_cast<char>(std::tolower(static_cast<unsigned char>(c)));
        raw.push_back(name + "=" + esc(kv.second.value()));
    }
    std::sort(raw.begin(), raw.end());
    s += "|raw:";
    for (auto& h : raw) s += h + ";";
    std::vector<std::string> typed;
    for (auto& h : m.headers().list()) {
        std::ostringstream os;
        h->write(os);
        typed.push_back(std::string(h->name()) + "=" + esc(os.str()));
    }
    std::sort(typed.begin(), typed.end());
    s += "|typed:";
    for (auto& h : typed) s += h + ";";
    std::vector<std::string> cookies;
    for (const auto& c : m.cookies()) {
        std::ostringstream os;
        os << c;
        cookies.push_back(esc(os.str()));
    }
    std::sort(cookies.begin(), cookies.end());
    s += "|cookies:";
    for (auto& c : cookies) s += c + ";";
    s += "|body(" + std::to_string(m.body().size()) + "):" + esc(m.body());
    return s;
}

inline std::string snap_request(const Pistache::Http::Request& q)
{
    std::ostringstream os;
    os << q.method();
    std::string s = os.str() + "|" + esc(q.resource()) + "|q:";
    std::vector<std::string> ps;
    for (auto it = q.query().parameters_begin(); it != q.query().parameters_end(); ++it) ps.push_back(esc(it->first) + "=" + esc(it->second));
    std::sort(ps.begin(), ps.end());
    for (auto& p : ps) s += p + "&";
    s += q.version() == Pistache::Http::Version::Http10 ? "|1.0" : "|1.1";
    return s + snap_common(q);
}

inline std::string snap_response(const Pistache::Http::Response& p)
{
    return std::to_string(static_cast<int>(p.code())) + snap_common(p);
}

} // namespace msggen
