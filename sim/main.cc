// pistache_sim: command line front end of the simulator.
//
//   pistache_sim list
//   pistache_sim gen   <scenario> <run_seed> <tier>
//   pistache_sim batch <scenario> <base_seed> <start> <count> <tier>
//   pistache_sim run   <scenario> <plan.json>
//
// Every executed run prints one line "RUN <json>" on stdout. A run that ends with a fatal
// verdict (deadlock, livelock, hang, terminate, or a scenario abandoning stuck threads)
// prints its line and the process exits with status 3; the driver restarts the batch after it.
#include <cstdio>
#include <cstdlib>
#include <cstring>
#include <fstream>
#include <sstream>
#include <string>

#include <sys/resource.h>
#include <unistd.h>

#include <sys/stat.h>
#include <unistd.h>

#include "scenario.h"

using scen::Json;
using scen::Scenario;

namespace scen {

std::vector<Scenario*>& registry()
{
    static std::vector<Scenario*> r;
    return r;
}

std::string scratch_root()
{
    static std::string root;
    if (root.empty()) {
        char buf[4096];
        ssize_t n = readlink("/proc/self/exe", buf, sizeof buf - 1);
        std::string exe = n > 0 ? std::string(buf, static_cast<size_t>(n)) : std::string("/verif/build/plain/pistache_sim");
        for (int i = 0; i < 2; ++i) {
            size_t sl = exe.rfind('/');
            if (sl != std::string::npos) exe.resize(sl);
        }
        root = exe + "/scratch";
        mkdir(root.c_str(), 0755);
    }
    return root;
}

void gen_sched(sim::Rng& rng, Json& plan, sim::u64 horizon, bool allow_stalls)
{
    Json s = Json::object();
    s["seed"] = static_cast<long long>(rng.next() >> 1);
    int pol = static_cast<int>(rng.below(10));
    if (pol < 5) {
        s["policy"] = "random";
    } else if (pol < 8) {
        s["policy"] = "pct";
        s["depth"] = static_cast<int>(rng.below(4));
        s["horizon"] = static_cast<long long>(horizon);
    } else {
        s["policy"] = "sticky";
        s["keep_permille"] = static_cast<int>(500 + rng.below(480));
    }
    if (allow_stalls && rng.chance(0.3)) {
        s["stall_ppm"] = static_cast<int>(200 + rng.below(3000));
        s["stall_max_us"] = static_cast<int>(1000 + rng.below(50000));
    }
    if (allow_stalls && rng.chance(0.3)) {
        s["pause_ppm"] = static_cast<int>(200 + rng.below(4000));
        s["pause_max_us"] = static_cast<int>(100 + rng.below(rng.chance(0.5) ? 2000 : 30000));
    }
    if (allow_stalls && rng.chance(0.3)) {
        // a random subset of sites (by hash bucket of the site name) at which threads are descheduled often in this run
        unsigned mask = 1u << rng.below(16);
        if (rng.chance(0.5)) mask |= 1u << rng.below(16);
        s["hot_buckets"] = static_cast<int>(mask);
        s["hot_pause_permille"] = static_cast<int>(30 + rng.below(500));
        if (!s.has("pause_max_us")) s["pause_max_us"] = static_cast<int>(100 + rng.below(rng.chance(0.5) ? 2000 : 30000));
        s["max_pauses"] = static_cast<int>(4 + rng.below(60));
    }
    if (allow_stalls && rng.chance(0.3)) {
        s["start_delay_permille"] = static_cast<int>(200 + rng.below(700));
        s["start_delay_max_us"] = static_cast<int>(50 + rng.below(3000));
    }
    plan["sched"] = s;
}

sim::Config sched_from_plan(const Json& plan)
{
    sim::Config c;
    const Json& s = plan.get("sched");
    c.sched_seed = static_cast<sim::u64>(s.num("seed", 1));
    std::string p = s.str("policy", "random");
    c.policy = p == "pct" ? sim::PolicyPct : p == "sticky" ? sim::PolicySticky : sim::PolicyRandom;
    c.pct_depth = static_cast<int>(s.num("depth", 2));
    c.pct_horizon = static_cast<sim::u64>(s.num("horizon", 2000));
    c.sticky_p = static_cast<double>(s.num("keep_permille", 800)) / 1000.0;
    c.stall_p = static_cast<double>(s.num("stall_ppm", 0)) / 1e6;
    c.stall_max_ns = s.num("stall_max_us", 50000) * 1000;
    c.pause_p = static_cast<double>(s.num("pause_ppm", 0)) / 1e6;
    c.pause_max_ns = s.num("pause_max_us", 5000) * 1000;
    c.hot_buckets = static_cast<unsigned>(s.num("hot_buckets", 0)) & 0xffffu;
    for (size_t i = 0; i < s.get("hot_sites").size(); ++i) c.hot_sites.push_back(s.get("hot_sites").at(i).as_str());
    c.hot_pause_p = static_cast<double>(s.num("hot_pause_permille", 0)) / 1000.0;
    c.hot_thread_prefix = s.str("hot_thread_prefix", "");
    c.max_pauses = static_cast<sim::u64>(std::max<long long>(0, s.num("max_pauses", 64)));
    c.start_delay_p = static_cast<double>(s.num("start_delay_permille", 0)) / 1000.0;
    c.start_delay_max_ns = s.num("start_delay_max_us", 2000) * 1000;
    c.max_steps = static_cast<sim::u64>(s.num("max_steps", 400000));
    const Json& g = s.get("choices");
    for (size_t i = 0; i < g.size(); ++i) c.guided.push_back(static_cast<int>(g.at(i).as_int()));
    // a minimised schedule: [[k, thread], ...] = at the k-th multi-choice point run that thread; everywhere else the
    // default rule applies (keep the running thread if it can run, else the enabled thread with the lowest id)
    const Json& sc = s.get("script");
    for (size_t i = 0; i < sc.size(); ++i) {
        size_t k = static_cast<size_t>(std::max<long long>(0, sc.at(i).at(0).as_int()));
        if (k > 4000000) continue;
        if (c.guided.size() <= k) c.guided.resize(k + 1, -1);
        c.guided[k] = static_cast<int>(sc.at(i).at(1).as_int());
    }
    c.guided_default_tail = s.str("tail", "") == "default" || sc.size() > 0;
    c.record_choices = s.flag("record", false);
    return c;
}

bool wait_for(const std::function<bool()>& pred, sim::i64 timeout_ns, const char* what)
{
    return sim::block_until(pred, sim::now_ns() + timeout_ns, what);
}

void pretouch(); // scen_common.cc
int run_conformance(bool verbose); // conformance.cc

} // namespace scen

namespace {

struct Current {
    Scenario* sc = nullptr;
    Json plan;
    sim::u64 run_seed = 0;
    long long index = -1;
    bool emit_plan = false;
} cur;

std::string u64hex(sim::u64 v)
{
    char b[20];
    snprintf(b, sizeof b, "%016llx", static_cast<unsigned long long>(v));
    return b;
}

void emit_line(const std::string& verdict)
{
    sim::Recorder& r = sim::rec();
    Json o = Json::object();
    o["scenario"] = cur.sc ? cur.sc->name : "?";
    o["property"] = cur.sc ? cur.sc->property : "?";
    o["index"] = cur.index;
    o["run_seed"] = static_cast<long long>(cur.run_seed);
    std::string v = verdict;
    if (v == "ok" && !r.violations.empty()) v = "violation";
    o["verdict"] = v;
    std::string pd = cur.plan.dump();
    o["plan_hash"] = u64hex(sim::hash_bytes(pd.data(), pd.size()));
    o["trace_hash"] = u64hex(sim::trace_hash());
    o["sched_hash"] = u64hex(sim::sched_hash());
    Json vs = Json::array();
    for (auto& x : r.violations) {
        Json e = Json::object();
        e["sig"] = x.sig;
        e["detail"] = x.detail.size() > 4000 ? x.detail.substr(0, 4000) : x.detail;
        vs.push(e);
    }
    o["violations"] = vs;
    Json pr = Json::object(), fa = Json::object(), st = Json::object();
    for (auto& kv : r.probes) pr[kv.first] = static_cast<long long>(kv.second);
    for (auto& kv : r.faults) fa[kv.first] = static_cast<long long>(kv.second);
    for (auto& kv : r.stats) st[kv.first] = static_cast<long long>(kv.second);
    o["probes"] = pr;
    o["faults"] = fa;
    o["stats"] = st;
    if (!r.notes.empty()) {
        Json n = Json::array();
        for (auto& s : r.notes) n.push(s);
        o["notes"] = n;
    }
    if (cur.emit_plan || v != "ok") o["plan"] = cur.plan;
    if (cur.plan.get("sched").flag("record", false)) {
        // the thread chosen at every decision point with more than one enabled thread, in order
        Json ch = Json::array();
        for (int c : sim::recorded_choices()) ch.push(c);
        o["recorded_choices"] = ch;
    }
    std::string line = "RUN " + o.dump() + "\n";
    fwrite(line.data(), 1, line.size(), stdout);
    fflush(stdout);
}

void run_one(Scenario* sc, const Json& plan, sim::u64 run_seed, long long index, bool emit_plan)
{
    cur.sc = sc;
    cur.plan = plan;
    cur.run_seed = run_seed;
    cur.index = index;
    cur.emit_plan = emit_plan;
    simk::reset();
    sim::rec().clear();
    sim::Config cfg = scen::sched_from_plan(plan);
    sim::begin_run(cfg);
    sc->run(plan);
    sim::end_run();
    emit_line("ok");
}

Scenario* find(const char* name)
{
    for (Scenario* s : scen::registry())
        if (!strcmp(s->name, name)) return s;
    fprintf(stderr, "unknown scenario %s\n", name);
    exit(2);
}

sim::u64 run_seed_for(Scenario* sc, sim::u64 base, long long i)
{
    return sim::mix(sim::mix(base, sim::hash_str(sc->name)), static_cast<sim::u64>(i)) >> 1;
}

Json gen_plan(Scenario* sc, sim::u64 run_seed, int tier)
{
    sim::Rng rng(sim::mix(run_seed, 0x9e1a));
    Json plan = sc->gen(rng, tier);
    plan["scenario"] = sc->name;
    plan["run_seed"] = static_cast<long long>(run_seed);
    return plan;
}

} // namespace

// Sanitizer defaults: distinguishable exit codes, no leak checking (a run that is abandoned
// on a fatal verdict leaks by design).
extern "C" __attribute__((used, visibility("default"))) const char* __asan_default_options()
{
    return "exitcode=77:detect_leaks=0:abort_on_error=0:allocator_may_return_null=1:detect_container_overflow=1";
}
extern "C" __attribute__((used, visibility("default"))) const char* __ubsan_default_options()
{
    return "halt_on_error=1:exitcode=77:print_stacktrace=1";
}
extern "C" __attribute__((used, visibility("default"))) const char* __tsan_default_options()
{
    return "exitcode=66:halt_on_error=1:report_signal_unsafe=0:report_thread_leaks=0:second_deadlock_stack=1:history_size=4";
}

int main(int argc, char** argv)
{
    if (argc < 2) {
        fprintf(stderr, "usage: %s list|gen|batch|run ...\n", argv[0]);
        return 2;
    }
    // Real descriptors must never collide with simulated ones.
    struct rlimit rl;
    if (getrlimit(RLIMIT_NOFILE, &rl) == 0 && rl.rlim_cur > 1000) {
        rl.rlim_cur = 1000;
        setrlimit(RLIMIT_NOFILE, &rl);
    }
    setvbuf(stdout, nullptr, _IOLBF, 0);
    std::string cmd = argv[1];
    if (cmd == "list") {
        for (Scenario* s : scen::registry()) printf("%s %s %s\n", s->name, s->property, s->what);
        return 0;
    }
    sim::set_fatal_handler([](const std::string& verdict) { emit_line(verdict); });
    const char* wd = getenv("SIM_WATCHDOG_SECS");
    sim::start_watchdog(wd ? atoi(wd) : 20);
    scen::pretouch();

    if (cmd == "conformance") {
        int d = scen::run_conformance(argc >= 3);
        return d == 0 ? 0 : 1;
    }
    if (cmd == "gen" && argc >= 5) {
        Scenario* sc = find(argv[2]);
        Json plan = gen_plan(sc, strtoull(argv[3], nullptr, 10), atoi(argv[4]));
        printf("%s\n", plan.dump().c_str());
        return 0;
    }
    if (cmd == "planof" && argc >= 6) {
        Scenario* sc = find(argv[2]);
        sim::u64 rs = run_seed_for(sc, strtoull(argv[3], nullptr, 10), atoll(argv[4]));
        printf("%s\n", gen_plan(sc, rs, atoi(argv[5])).dump().c_str());
        return 0;
    }
    if (cmd == "batch" && argc >= 7) {
        Scenario* sc = find(argv[2]);
        sim::u64 base = strtoull(argv[3], nullptr, 10);
        long long start = atoll(argv[4]), count = atoll(argv[5]);
        int tier = atoi(argv[6]);
        long long sample_every = argc >= 8 ? atoll(argv[7]) : 0;
        for (long long i = start; i < start + count; ++i) {
            sim::u64 rs = run_seed_for(sc, base, i);
            Json plan = gen_plan(sc, rs, tier);
            bool emit = sample_every > 0 && (i % sample_every) == 0;
            run_one(sc, plan, rs, i, emit);
        }
        return 0;
    }
    if (cmd == "run" && argc >= 4) {
        Scenario* sc = find(argv[2]);
        std::ifstream in(argv[3]);
        std::stringstream ss;
        ss << in.rdbuf();
        Json plan = Json::parse(ss.str());
        if (plan.has("plan")) { // a replay file wraps the plan
            Json p = plan.get("plan");
            plan = p;
        }
        run_one(sc, plan, static_cast<sim::u64>(plan.num("run_seed", 0)), -1, false);
        return 0;
    }
    fprintf(stderr, "bad arguments\n");
    return 2;
}
