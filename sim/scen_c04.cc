// C04 — successive messages on a persistent connection are parsed independently.
//
// L0: a sequence of 2..6 generated messages (bodyless, Content-Length, chunked; complete, or
// abandoned in the middle by an error: size limit exceeded mid-body, invalid chunk size,
// conflicting framing headers, other mutations) is delivered, each message in its own drawn
// segmentation and starting in a new segment, to ONE long-lived parser that is reset exactly
// where Http::Handler::onInput resets it; each message is also delivered alone, in the same
// segmentation, to a fresh parser. Oracle (differential): for every message the reused
// parser's outcome (complete + parsed message, or error status, and at which segment) equals
// the fresh parser's.
// L1: the same sequences over one keep-alive connection to a real Http::Endpoint versus one
// new connection per message: what the handler saw and what status came back must agree.
#include "actors.h"
#include "httpworld.h"
#include "msggen.h"
#include "scenario.h"

using namespace scen;
using namespace Pistache;
using sim::i64;
using sim::u64;

namespace {

struct Outcome {
    enum K { Again, Done, Error } kind = Again;
    int code = 0;
    std::string what;
    size_t at = 0;
    std::string snap;
    std::string str() const
    {
        if (kind == Again) return "need-more-data";
        if (kind == Done) return "complete at segment " + std::to_string(at + 1);
        return "error " + std::to_string(code) + " (" + what + ") at segment " + std::to_string(at + 1);
    }
    bool same(const Outcome& o) const { return kind == o.kind && code == o.code && at == o.at && snap == o.snap; }
};

// Feeds one message's segments the way Handler::onInput does (including its reset() calls) and stops at the
// first outcome: the rest of an abandoned message is never sent.
template <typename Parser, typename SnapFn>
Outcome feed_message(Parser& parser, const std::string& msg, const std::vector<size_t>& cuts, SnapFn snap)
{
    Outcome o;
    std::vector<size_t> ends(cuts);
    ends.push_back(msg.size());
    size_t start = 0;
    for (size_t i = 0; i < ends.size(); ++i) {
        size_t end = ends[i];
        if (end <= start) continue;
        sim::heartbeat(); // the harness is alive; a feed()/parse() that never returns still ends in verdict hang
        try {
            if (!parser.feed(msg.data() + start, end - start)) {
                parser.reset();
                o.kind = Outcome::Error;
                o.code = 413;
                o.what = "exceeds maximum size";
                o.at = i;
                return o;
            }
            if (parser.parse() == Http::Private::State::Done) {
                o.kind = Outcome::Done;
                o.at = i;
                o.snap = snap(parser);
                parser.reset();
                return o;
            }
        } catch (const Http::HttpError& e) {
            parser.reset();
            o.kind = Outcome::Error;
            o.code = e.code();
            o.what = e.reason();
            o.at = i;
            return o;
        } catch (const std::exception& e) {
            parser.reset();
            o.kind = Outcome::Error;
            o.code = 500;
            o.what = e.what();
            o.at = i;
            return o;
        }
        start = end;
    }
    return o;
}

Json gen_msgs(sim::Rng& rng, bool request, size_t max_size, int count, int maxcuts)
{
    Json msgs = Json::array();
    for (int i = 0; i < count; ++i) {
        msggen::Msg m = request ? msggen::gen_request(rng, std::min<size_t>(max_size, 1200)) : msggen::gen_response(rng, std::min<size_t>(max_size, 1200));
        int k = static_cast<int>(rng.below(10));
        if (k == 0) { // exceeds the size limit in the middle of its body
            std::string pad(max_size, 'z');
            size_t he = m.bytes.find("\r\n\r\n");
            m.bytes = m.bytes.substr(0, he == std::string::npos ? m.bytes.size() : he);
            // rebuild with a large Content-Length body
            size_t cl = m.bytes.find("Content-Length:");
            if (cl != std::string::npos) m.bytes.erase(cl, m.bytes.find("\r\n", cl) + 2 - cl);
            size_t te = m.bytes.find("Transfer-Encoding:");
            if (te != std::string::npos) m.bytes.erase(te, m.bytes.find("\r\n", te) + 2 - te);
            if (m.bytes.size() < 2 || m.bytes.compare(m.bytes.size() - 2, 2, "\r\n") != 0) m.bytes += "\r\n";
            m.bytes += "Content-Length: " + std::to_string(pad.size()) + "\r\n\r\n" + pad;
            m.desc = "oversized-body";
        } else if (k < 4) {
            msggen::mutate(rng, m);
        }
        Json j = Json::object();
        j["msg"] = m.bytes;
        j["desc"] = m.desc;
        Json c = Json::array();
        for (size_t x : msggen::gen_cuts(rng, m.bytes, maxcuts)) c.push(static_cast<long>(x));
        j["cuts"] = c;
        msgs.push(j);
    }
    return msgs;
}

Json gen_l0(sim::Rng& rng, int tier)
{
    Json p = Json::object();
    bool req = rng.chance(0.6);
    size_t max_size = rng.chance(0.5) ? 4096 : static_cast<size_t>(400 + rng.below(1500));
    p["side"] = req ? "request" : "response";
    p["max_size"] = static_cast<long>(max_size);
    p["messages"] = gen_msgs(rng, req, max_size, static_cast<int>(rng.range(2, tier ? 8 : 6)), 6);
    Json s = Json::object();
    s["seed"] = 1;
    s["policy"] = "random";
    p["sched"] = s;
    return p;
}

std::vector<size_t> cuts_of(const Json& m, size_t n)
{
    std::vector<size_t> cuts;
    for (size_t k = 0; k < m.get("cuts").size(); ++k) {
        i64 c = m.get("cuts").at(k).as_int();
        if (c > 0 && c < static_cast<i64>(n)) cuts.push_back(static_cast<size_t>(c));
    }
    std::sort(cuts.begin(), cuts.end());
    cuts.erase(std::unique(cuts.begin(), cuts.end()), cuts.end());
    return cuts;
}

template <typename Parser, typename SnapFn>
void check_l0(const Json& plan, const std::string& side, SnapFn snap)
{
    sim::Recorder& r = sim::rec();
    const size_t max_size = static_cast<size_t>(std::max<i64>(64, plan.num("max_size", 4096)));
    const Json& msgs = plan.get("messages");
    Parser reused(max_size);
    std::string prev = "first";
    for (size_t i = 0; i < msgs.size(); ++i) {
        const Json& m = msgs.at(i);
        std::string bytes = m.str("msg");
        if (bytes.empty()) continue;
        std::vector<size_t> cuts = cuts_of(m, bytes.size());
        Outcome a = feed_message(reused, bytes, cuts, snap);
        r.fault("segmentation", static_cast<i64>(cuts.size()) + 1);
        Parser fresh(max_size);
        Outcome b = feed_message(fresh, bytes, cuts, snap);
        std::string desc = m.str("desc", "?");
        std::string ftag = desc.substr(0, desc.find('+'));
        if (a.kind == Outcome::Again) {
            // the message never completed: the connection is in the middle of it, nothing that follows is "the next message"
            r.probe("sequence-ends-in-incomplete-message");
            break;
        }
        r.probe("after-" + prev);
        if (!a.same(b)) {
            std::string d = side + " #" + std::to_string(i + 1) + " (" + desc + ", " + std::to_string(bytes.size()) + " bytes) after a predecessor that ended as '" + prev + "': on the reused parser " + a.str() + ", on a fresh parser " + b.str();
            if (a.kind == Outcome::Done && b.kind == Outcome::Done) d += "\n  reused: " + a.snap.substr(0, 500) + "\n  fresh:  " + b.snap.substr(0, 500);
            r.violation("C04.independent:outcome-differs-after-" + prev + ":" + side, d);
        }
        prev = a.kind == Outcome::Done ? "complete-" + ftag : "error-" + std::to_string(a.code) + "-in-" + ftag;
    }
}

void run_l0(const Json& plan)
{
    if (plan.str("side", "request") == "response")
        // Connection::handleResponsePacket moves the response out of the parser before resetting it
        check_l0<Http::ResponseParser>(plan, "response", [](Http::ResponseParser& p) {
            Http::Response taken = std::move(p.response);
            return msggen::snap_response(taken);
        });
    else
        check_l0<Http::RequestParser>(plan, "request", [](Http::RequestParser& p) { return msggen::snap_request(p.request); });
}

// ---- L1 --------------------------------------------------------------------------------------------------
Json gen_l1(sim::Rng& rng, int tier)
{
    Json p = Json::object();
    p["workers"] = static_cast<int>(rng.range(1, 2));
    size_t max_size = rng.chance(0.5) ? 4096 : static_cast<size_t>(600 + rng.below(1500));
    p["max_req"] = static_cast<long>(max_size);
    p["messages"] = gen_msgs(rng, true, max_size, static_cast<int>(rng.range(2, tier ? 6 : 4)), 5);
    p["gap_us"] = static_cast<int>(800 + rng.below(2000));
    p["decoy"] = rng.chance(0.4);
    gen_sched(rng, p, 4000, false);
    return p;
}

void run_l1(const Json& plan)
{
    sim::Recorder& r = sim::rec();
    const int port = 9080;
    httpw::World w;
    httpw::Opts o;
    o.workers = std::max(1, std::min(3, static_cast<int>(plan.num("workers", 1))));
    o.max_req = static_cast<size_t>(std::max<i64>(64, plan.num("max_req", 4096)));
    o.port = port;
    w.start(o);
    const Json& msgs = plan.get("messages");
    const i64 gap = std::max<i64>(500, plan.num("gap_us", 1000)) * 1000;
    using actors::Step;
    // keep-alive client: all messages on one connection, each awaited (answer or 150 ms of silence) before the next
    // the oversized/erroneous messages are abandoned where the framework answers: the client sends the message's
    // segments one by one and stops that message as soon as a response has arrived.
    // Because an abandoned message must stop at the segment that triggered the answer, the keep-alive client is driven
    // step by step from here rather than by a fixed script.
    auto mk = [&](int id) {
        auto cl = std::make_shared<actors::Client>(id, port, std::vector<Step> { httpw::step(Step::Connect), httpw::step(Step::AwaitClose, 3600LL * 1000000000LL) });
        cl->custom_net = true;
        cl->to_server.mss = 65536;
        cl->to_server.jitter_ns = 0;
        cl->start(0);
        return cl;
    };
    auto ka = mk(0);
    const std::function<bool()> ka_up = [&] { return ka->st.connected || ka->st.refused; };
    scen::wait_for(ka_up, 1000000000LL, "driver.connect");
    // sends one message segment by segment on `cl`; returns the index of the response that answered it (or -1)
    auto send_message = [&](std::shared_ptr<actors::Client>& cl, const std::string& bytes, const std::vector<size_t>& cuts) -> int {
        size_t before = cl->responses();
        std::vector<size_t> ends(cuts);
        ends.push_back(bytes.size());
        size_t start = 0;
        for (size_t end : ends) {
            if (end <= start) continue;
            size_t off = start;
            while (off < end && cl->sock && !cl->st.reset) {
                size_t n = cl->sock->send(bytes.data() + off, end - off);
                off += n;
                if (n == 0) sim::sleep_ns(100000);
            }
            start = end;
            const std::function<bool()> answered = [&] { return cl->responses() > before || cl->st.reset || cl->st.peer_fin; };
            if (scen::wait_for(answered, gap, "driver.segment-gap")) break; // answered: the rest of the message is not sent
        }
        const std::function<bool()> answered = [&] { return cl->responses() > before || cl->st.reset || cl->st.peer_fin; };
        scen::wait_for(answered, 150 * 1000000LL, "driver.await-answer");
        return cl->responses() > before ? static_cast<int>(before) : -1;
    };
    std::string prev = "first";
    int fresh_id = 1;
    for (size_t i = 0; i < msgs.size(); ++i) {
        const Json& m = msgs.at(i);
        std::string bytes = m.str("msg");
        if (bytes.empty()) continue;
        // An abandoned message ends with the byte that triggers the framework's answer: nothing beyond the first byte
        // over the size limit is sent, and no read of the server (4096 bytes) spans that point.
        if (bytes.size() > o.max_req + 1) bytes.resize(o.max_req + 1);
        std::vector<size_t> cuts = cuts_of(m, bytes.size());
        if (bytes.size() > 4096) {
            cuts.push_back(4096);
            std::sort(cuts.begin(), cuts.end());
            cuts.erase(std::unique(cuts.begin(), cuts.end()), cuts.end());
        }
        std::string desc = m.str("desc", "?");
        if (ka->st.reset || ka->st.peer_fin || !ka->st.connected) break;
        size_t reqs_before = w.requests.size();
        int ia = send_message(ka, bytes, cuts);
        std::string seen_a;
        for (size_t q = reqs_before; q < w.requests.size(); ++q) seen_a += w.requests[q].snap + "\n";
        int sa = ia >= 0 ? ka->reader.done[static_cast<size_t>(ia)].status : 0;
        // the same message alone on a new connection - in part of the runs on a descriptor number that has just been given up
        // by a connection that was dropped in the middle of a message (a fresh connection starts from nothing, whatever the
        // previous owner of its number was doing)
        if (plan.flag("decoy")) {
            auto decoy = mk(500 + fresh_id);
            const std::function<bool()> dup = [&] { return decoy->st.connected || decoy->st.refused; };
            scen::wait_for(dup, 1000000000LL, "driver.connect");
            static const std::string kPartial = "POST /echo/decoy?k=v HTTP/1.1\r\nHost: s\r\nCookie: a=b\r\nContent-Length: 20\r\n\r\nabc";
            if (decoy->sock) decoy->sock->send(kPartial.data(), kPartial.size());
            sim::sleep_ns(400 * 1000);
            if (decoy->sock) decoy->sock->close();
            decoy->st.closed_by_us = true;
            sim::sleep_ns(400 * 1000);
            r.probe("l1-fresh-connection-on-a-number-dropped-in-mid-message");
        }
        auto fresh = mk(fresh_id++);
        const std::function<bool()> up = [&] { return fresh->st.connected || fresh->st.refused; };
        scen::wait_for(up, 1000000000LL, "driver.connect");
        reqs_before = w.requests.size();
        int ib = send_message(fresh, bytes, cuts);
        std::string seen_b;
        for (size_t q = reqs_before; q < w.requests.size(); ++q) seen_b += w.requests[q].snap + "\n";
        int sb = ib >= 0 ? fresh->reader.done[static_cast<size_t>(ib)].status : 0;
        if (fresh->sock) fresh->sock->close();
        fresh->st.closed_by_us = true;
        if (sa == 0 && sb == 0) {
            r.probe("l1-sequence-ends-in-unanswered-message");
            break; // the connection is in the middle of a message
        }
        r.probe("l1-after-" + prev);
        std::string where = "request #" + std::to_string(i + 1) + " (" + desc + ", " + std::to_string(bytes.size()) + " bytes) after a predecessor that ended as '" + prev + "'";
        if (sa != sb) r.violation("C04.l1:status-differs-after-" + prev, where + ": answered " + std::to_string(sa) + " on the keep-alive connection and " + std::to_string(sb) + " on a fresh connection");
        else if (seen_a != seen_b) r.violation("C04.l1:handler-saw-different-request-after-" + prev, where + ":\n  keep-alive: " + seen_a.substr(0, 500) + "\n  fresh:      " + seen_b.substr(0, 500));
        std::string ftag = desc.substr(0, desc.find('+'));
        prev = sa == 200 ? "complete-" + ftag : "error-" + std::to_string(sa) + "-in-" + ftag;
    }
    if (ka->sock) ka->sock->close();
    ka->st.closed_by_us = true;
    w.stop();
}

Scenario sc0 { "c04_l0", "C04", "message sequences on one reused parser vs a fresh parser per message", gen_l0, run_l0 };
Registrar reg0(&sc0);
Scenario sc1 { "c04_l1", "C04", "message sequences on one keep-alive connection vs a fresh connection per message (real endpoint)", gen_l1, run_l1 };
Registrar reg1(&sc1);

} // namespace
