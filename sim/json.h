// Minimal JSON value / parser / writer for plans, results and replay files.
// Objects keep insertion order so that serialisation is deterministic.
#pragma once
#include <cstdint>
#include <cstdio>
#include <cstdlib>
#include <cstring>
#include <stdexcept>
#include <string>
#include <utility>
#include <vector>

namespace sj {

struct Json {
    enum Kind { Null, Bool, Int, Dbl, Str, Arr, Obj } kind = Null;
    bool b = false;
    int64_t i = 0;
    double d = 0;
    std::string s;
    std::vector<Json> a;
    std::vector<std::pair<std::string, Json>> o;

    Json() = default;
    Json(bool v) : kind(Bool), b(v) {}
    Json(int v) : kind(Int), i(v) {}
    Json(unsigned v) : kind(Int), i(v) {}
    Json(long v) : kind(Int), i(v) {}
    Json(long long v) : kind(Int), i(v) {}
    Json(unsigned long v) : kind(Int), i(static_cast<int64_t>(v)) {}
    Json(unsigned long long v) : kind(Int), i(static_cast<int64_t>(v)) {}
    Json(double v) : kind(Dbl), d(v) {}
    Json(const char* v) : kind(Str), s(v) {}
    Json(std::string v) : kind(Str), s(std::move(v)) {}

    static Json array() { Json j; j.kind = Arr; return j; }
    static Json object() { Json j; j.kind = Obj; return j; }

    bool is_null() const { return kind == Null; }
    bool is_obj() const { return kind == Obj; }
    bool is_arr() const { return kind == Arr; }
    bool is_str() const { return kind == Str; }
    bool is_num() const { return kind == Int || kind == Dbl; }

    Json& push(Json v) { if (kind != Arr) { *this = array(); } a.push_back(std::move(v)); return a.back(); }
    size_t size() const { return kind == Arr ? a.size() : kind == Obj ? o.size() : 0; }
    const Json& at(size_t k) const { static Json nul; return (kind == Arr && k < a.size()) ? a[k] : nul; }

    Json& operator[](const std::string& k) {
        if (kind != Obj) { *this = object(); }
        for (auto& kv : o) if (kv.first == k) return kv.second;
        o.emplace_back(k, Json());
        return o.back().second;
    }
    const Json& get(const std::string& k) const {
        static Json nul;
        if (kind != Obj) return nul;
        for (auto& kv : o) if (kv.first == k) return kv.second;
        return nul;
    }
    bool has(const std::string& k) const { return !get(k).is_null(); }
    int64_t num(const std::string& k, int64_t def = 0) const {
        const Json& v = get(k);
        if (v.kind == Int) return v.i;
        if (v.kind == Dbl) return static_cast<int64_t>(v.d);
        if (v.kind == Bool) return v.b;
        return def;
    }
    double dbl(const std::string& k, double def = 0) const {
        const Json& v = get(k);
        if (v.kind == Int) return static_cast<double>(v.i);
        if (v.kind == Dbl) return v.d;
        return def;
    }
    std::string str(const std::string& k, const std::string& def = "") const {
        const Json& v = get(k);
        return v.kind == Str ? v.s : def;
    }
    bool flag(const std::string& k, bool def = false) const {
        const Json& v = get(k);
        if (v.kind == Bool) return v.b;
        if (v.kind == Int) return v.i != 0;
        return def;
    }
    int64_t as_int(int64_t def = 0) const {
        if (kind == Int) return i;
        if (kind == Dbl) return static_cast<int64_t>(d);
        if (kind == Bool) return b;
        return def;
    }
    const std::string& as_str() const { static std::string e; return kind == Str ? s : e; }

    static void esc(const std::string& in, std::string& out) {
        out.push_back('"');
        for (unsigned char c : in) {
            switch (c) {
            case '"': out += "\\\""; break;
            case '\\': out += "\\\\"; break;
            case '\n': out += "\\n"; break;
            case '\r': out += "\\r"; break;
            case '\t': out += "\\t"; break;
            default:
                if (c < 0x20 || c >= 0x7f) {
                    char buf[8];
                    snprintf(buf, sizeof buf, "\\u%04x", c);
                    out += buf;
                } else {
                    out.push_back(static_cast<char>(c));
                }
            }
        }
        out.push_back('"');
    }
    void dump(std::string& out) const {
        switch (kind) {
        case Null: out += "null"; break;
        case Bool: out += b ? "true" : "false"; break;
        case Int: out += std::to_string(i); break;
        case Dbl: { char buf[40]; snprintf(buf, sizeof buf, "%.6g", d); out += buf; break; }
        case Str: esc(s, out); break;
        case Arr:
            out.push_back('[');
            for (size_t k = 0; k < a.size(); ++k) { if (k) out.push_back(','); a[k].dump(out); }
            out.push_back(']');
            break;
        case Obj:
            out.push_back('{');
            for (size_t k = 0; k < o.size(); ++k) {
                if (k) out.push_back(',');
                esc(o[k].first, out);
                out.push_back(':');
                o[k].second.dump(out);
            }
            out.push_back('}');
            break;
        }
    }
    std::string dump() const { std::string out; dump(out); return out; }

    // ---- parser (bytes 0x80..0xff in strings are written as \u00XX and read back as single bytes)
    struct P {
        const char* p; const char* e;
        void ws() { while (p < e && (*p == ' ' || *p == '\n' || *p == '\r' || *p == '\t')) ++p; }
        [[noreturn]] void fail(const char* m) { throw std::runtime_error(std::string("json: ") + m); }
        Json val() {
            ws();
            if (p >= e) fail("eof");
            char c = *p;
            if (c == '{') {
                ++p; Json j = Json::object(); ws();
                if (p < e && *p == '}') { ++p; return j; }
                for (;;) {
                    ws(); if (p >= e || *p != '"') fail("key");
                    std::string k = str(); ws();
                    if (p >= e || *p != ':') fail("colon");
                    ++p;
                    j.o.emplace_back(std::move(k), val()); ws();
                    if (p < e && *p == ',') { ++p; continue; }
                    if (p < e && *p == '}') { ++p; return j; }
                    fail("object");
                }
            }
            if (c == '[') {
                ++p; Json j = Json::array(); ws();
                if (p < e && *p == ']') { ++p; return j; }
                for (;;) {
                    j.a.push_back(val()); ws();
                    if (p < e && *p == ',') { ++p; continue; }
                    if (p < e && *p == ']') { ++p; return j; }
                    fail("array");
                }
            }
            if (c == '"') return Json(str());
            if (!strncmp(p, "true", 4) && e - p >= 4) { p += 4; return Json(true); }
            if (!strncmp(p, "false", 5) && e - p >= 5) { p += 5; return Json(false); }
            if (!strncmp(p, "null", 4) && e - p >= 4) { p += 4; return Json(); }
            const char* st = p; bool isd = false;
            if (p < e && (*p == '-' || *p == '+')) ++p;
            while (p < e && ((*p >= '0' && *p <= '9') || *p == '.' || *p == 'e' || *p == 'E' || *p == '-' || *p == '+')) {
                if (*p == '.' || *p == 'e' || *p == 'E') isd = true;
                ++p;
            }
            if (p == st) fail("value");
            std::string t(st, p);
            if (isd) return Json(strtod(t.c_str(), nullptr));
            return Json(static_cast<long long>(strtoll(t.c_str(), nullptr, 10)));
        }
        std::string str() {
            ++p; std::string out;
            while (p < e && *p != '"') {
                if (*p == '\\') {
                    ++p; if (p >= e) fail("esc");
                    switch (*p) {
                    case 'n': out.push_back('\n'); break;
                    case 'r': out.push_back('\r'); break;
                    case 't': out.push_back('\t'); break;
                    case 'b': out.push_back('\b'); break;
                    case 'f': out.push_back('\f'); break;
                    case 'u': {
                        if (e - p < 5) fail("u");
                        char h[5] = { p[1], p[2], p[3], p[4], 0 };
                        unsigned v = static_cast<unsigned>(strtoul(h, nullptr, 16));
                        out.push_back(static_cast<char>(v & 0xff));
                        p += 4;
                        break;
                    }
                    default: out.push_back(*p);
                    }
                    ++p;
                } else {
                    out.push_back(*p++);
                }
            }
            if (p >= e) fail("string");
            ++p;
            return out;
        }
    };
    static Json parse(const std::string& text) {
        P p { text.data(), text.data() + text.size() };
        Json j = p.val();
        return j;
    }
};

} // namespace sj
