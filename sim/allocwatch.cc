// Allocation watch: in the plain build the global operator new is replaced so that a scenario can ask
// for the largest single allocation made while it was watching ("never reserves memory beyond the
// configured maximum", C03). Sanitizer builds keep the sanitizers' own allocator.
#include <cstddef>
#include <cstdlib>
#include <new>

namespace simalloc {
static bool g_watch = false;
static size_t g_max = 0;
void start() { g_max = 0; g_watch = true; }
size_t stop() { g_watch = false; return g_max; }
bool available()
{
#if !defined(SIM_ASAN) && !defined(SIM_TSAN)
    return true;
#else
    return false;
#endif
}
}

#if !defined(SIM_ASAN) && !defined(SIM_TSAN)
void* operator new(size_t n)
{
    if (simalloc::g_watch && n > simalloc::g_max) simalloc::g_max = n;
    void* p = malloc(n ? n : 1);
    if (!p) throw std::bad_alloc();
    return p;
}
void* operator new[](size_t n) { return operator new(n); }
void operator delete(void* p) noexcept { free(p); }
void operator delete[](void* p) noexcept { free(p); }
void operator delete(void* p, size_t) noexcept { free(p); }
void operator delete[](void* p, size_t) noexcept { free(p); }
#endif
